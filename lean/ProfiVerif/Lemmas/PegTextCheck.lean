/-
Executable (sufficient) checks for the canonical-statement predicates of `PegTextAll.lean`, so that
concrete ASTs — e.g. `astOf` of a concrete description — can be shown canonical by evaluation.
-/
import ProfiVerif.Lemmas.PegTextAll

namespace PV.Gsd.Peg
open PV.Gsd

def digitsB (t : Str) : Bool := !t.isEmpty && t.all fun c => decide (IsDigit c)

def decTextB : Str → Bool
  | [] => false
  | c :: r => if c = '-' then digitsB r else digitsB (c :: r)

theorem digitsB_spec {t : Str} (h : digitsB t = true) : ∃ d ds, t = d :: ds ∧ ∀ c ∈ d :: ds, IsDigit c := by
  simp only [digitsB, Bool.and_eq_true, Bool.not_eq_true', List.isEmpty_eq_false_iff, List.all_eq_true,
    decide_eq_true_eq] at h
  cases t with
  | nil => exact (h.1 rfl).elim
  | cons d ds => exact ⟨d, ds, rfl, h.2⟩

theorem decText_of_B {t : Str} (h : decTextB t = true) : DecText t := by
  cases t with
  | nil => simp [decTextB] at h
  | cons c r =>
    simp only [decTextB] at h
    split at h
    · next hc =>
      subst hc
      obtain ⟨d, ds, rfl, hd⟩ := digitsB_spec h
      exact ⟨d, ds, .inr rfl, hd⟩
    · obtain ⟨d, ds, he, hd⟩ := digitsB_spec h
      exact ⟨d, ds, .inl he, hd⟩

def numCanonB : NumTok → Bool
  | .dec t => decTextB t
  | .hex _ => false

theorem numCanon_of_B {n : NumTok} (h : numCanonB n = true) : NumCanon n := by
  cases n with
  | dec t => exact decText_of_B h
  | hex t => simp [numCanonB] at h

def natCanonB : NumTok → Bool
  | .dec t => digitsB t
  | .hex _ => false

theorem natCanon_of_B {n : NumTok} (h : natCanonB n = true) : NatCanon n := by
  cases n with
  | dec t => obtain ⟨d, ds, rfl, hd⟩ := digitsB_spec h; exact ⟨d, ds, rfl, hd⟩
  | hex t => simp [natCanonB] at h

def strCanonB : Str → Bool
  | [] => false
  | q :: r => decide (q = '"') && !r.isEmpty && decide (r.getLast? = some '"') && r.dropLast.all fun c => decide (c ≠ '"')

theorem strCanon_of_B {raw : Str} (h : strCanonB raw = true) : StrCanon raw := by
  cases raw with
  | nil => simp [strCanonB] at h
  | cons q r =>
    simp only [strCanonB, Bool.and_eq_true, decide_eq_true_eq, Bool.not_eq_true', List.isEmpty_eq_false_iff,
      List.all_eq_true, ne_eq] at h
    obtain ⟨⟨⟨hq, hne⟩, hlast⟩, hall⟩ := h
    subst hq
    obtain ⟨ys, rfl⟩ := List.getLast?_eq_some_iff.mp hlast
    refine ⟨ys, rfl, ?_⟩
    simpa using hall

def allB {α : Type} (l : List α) (f : α → Bool) : Bool := l.all f

def valueCanonB : Value → Bool
  | .str raw => strCanonB raw
  | .num n => numCanonB n
  | .list ns => decide (2 ≤ ns.length) && ns.all numCanonB
  | .family _ => false

theorem valueCanon_of_B {v : Value} (h : valueCanonB v = true) : ValueCanon v := by
  cases v with
  | str raw => exact strCanon_of_B h
  | num n => exact numCanon_of_B h
  | list ns =>
    simp only [valueCanonB, Bool.and_eq_true, decide_eq_true_eq, List.all_eq_true] at h
    exact ⟨h.1, fun n hn => numCanon_of_B (h.2 n hn)⟩
  | family raw => simp [valueCanonB] at h

def keyCharsB (key : Str) : Bool := !key.isEmpty && key.all fun c => decide (IsIdChar c)

theorem keyChars_of_B {key : Str} (h : keyCharsB key = true) : KeyChars key := by
  simp only [keyCharsB, Bool.and_eq_true, Bool.not_eq_true', List.isEmpty_eq_false_iff, List.all_eq_true,
    decide_eq_true_eq] at h
  cases key with
  | nil => exact (h.1 rfl).elim
  | cons c w => exact ⟨c, w, rfl, h.2⟩

def optB (v : Option NumTok) (f : NumTok → Bool) : Bool :=
  match v with
  | none => true
  | some n => f n

theorem opt_of_B {v : Option NumTok} {f : NumTok → Bool} {P : NumTok → Prop} (hf : ∀ n, f n = true → P n)
    (h : optB v f = true) : ∀ n, v = some n → P n := by
  intro n hn; subst hn; exact hf n h

def settingCanonB (s : Setting) : Bool := keyCharsB s.key && optB s.index numCanonB && valueCanonB s.value

theorem settingCanon_of_B {s : Setting} (h : settingCanonB s = true) : SettingCanon s := by
  simp only [settingCanonB, Bool.and_eq_true] at h
  exact ⟨keyChars_of_B h.1.1, opt_of_B (fun _ => numCanon_of_B) h.1.2, valueCanon_of_B h.2⟩

def lineOkB (l : NumTok × Str) : Bool := numCanonB l.1 && strCanonB l.2

theorem lineOk_of_B {l : NumTok × Str} (h : lineOkB l = true) : LineOk l := by
  simp only [lineOkB, Bool.and_eq_true] at h
  exact ⟨numCanon_of_B h.1, strCanon_of_B h.2⟩

def typeCanonB : TypeName → Bool
  | .bit n => numCanonB n
  | .bitArea a b => numCanonB a && numCanonB b
  | .ident name => keyCharsB name && clash (kwBit.map Char.toLower) name && clash (kwBitArea.map Char.toLower) name

theorem typeCanon_of_B {t : TypeName} (h : typeCanonB t = true) : TypeCanon t := by
  cases t with
  | bit n => exact numCanon_of_B h
  | bitArea a b =>
    simp only [typeCanonB, Bool.and_eq_true] at h
    exact ⟨numCanon_of_B h.1, numCanon_of_B h.2⟩
  | ident name =>
    simp only [typeCanonB, Bool.and_eq_true] at h
    exact ⟨keyChars_of_B h.1.1, h.1.2, h.2⟩

def conCanonB : Option PrmConstraintAst → Bool
  | none => true
  | some (.range a b) => numCanonB a && numCanonB b
  | some (.set vs) => !vs.isEmpty && vs.all numCanonB

theorem conCanon_of_B {c : Option PrmConstraintAst} (h : conCanonB c = true) : ConCanon c := by
  match c, h with
  | none, _ => trivial
  | some (.range a b), h =>
    simp only [conCanonB, Bool.and_eq_true] at h
    exact ⟨numCanon_of_B h.1, numCanon_of_B h.2⟩
  | some (.set vs), h =>
    simp only [conCanonB, Bool.and_eq_true, Bool.not_eq_true', List.isEmpty_eq_false_iff, List.all_eq_true] at h
    exact ⟨h.1, fun v hv => numCanon_of_B (h.2 v hv)⟩

def allowedCanonB : AllowedAst → Bool
  | .range a b => numCanonB a && numCanonB b
  | .set vs => !vs.isEmpty && vs.all numCanonB

theorem allowedCanon_of_B {c : AllowedAst} (h : allowedCanonB c = true) : AllowedCanon c := by
  cases c with
  | range a b =>
    simp only [allowedCanonB, Bool.and_eq_true] at h
    exact ⟨numCanon_of_B h.1, numCanon_of_B h.2⟩
  | set vs =>
    simp only [allowedCanonB, Bool.and_eq_true, Bool.not_eq_true', List.isEmpty_eq_false_iff, List.all_eq_true] at h
    exact ⟨h.1, fun v hv => numCanon_of_B (h.2 v hv)⟩

def stmtCanonB : Stmt → Bool
  | .setting s => settingCanonB s && decide (KeyFree s.key)
  | .prmText t => numCanonB t.id && !t.values.isEmpty && t.values.all lineOkB
  | .extPrm e => numCanonB e.id && strCanonB e.name && typeCanonB e.typ && numCanonB e.default && conCanonB e.constraint &&
      optB e.textRef numCanonB && optB e.changeable numCanonB && optB e.visible numCanonB
  | .slots ss => ss.all fun s => numCanonB s.number && strCanonB s.name && numCanonB s.default && allowedCanonB s.allowed
  | .area a => numCanonB a.first && numCanonB a.last && !a.values.isEmpty && a.values.all lineOkB
  | .module m => strCanonB m.name && !m.config.isEmpty && m.config.all numCanonB &&
      decide (m.items = refItems (itemsRef m.items) ++ (itemsSettings m.items).map ModItem.setting) &&
      optB (itemsRef m.items) natCanonB && (itemsSettings m.items).all settingCanonB
  | .ignored => false

theorem stmtCanon_of_B {st : Stmt} (h : stmtCanonB st = true) : StmtCanon st := by
  cases st with
  | setting s =>
    simp only [stmtCanonB, Bool.and_eq_true, decide_eq_true_eq] at h
    exact ⟨settingCanon_of_B h.1, h.2⟩
  | prmText t =>
    simp only [stmtCanonB, Bool.and_eq_true, Bool.not_eq_true', List.isEmpty_eq_false_iff, List.all_eq_true] at h
    exact ⟨numCanon_of_B h.1.1, h.1.2, fun l hl => lineOk_of_B (h.2 l hl)⟩
  | extPrm e =>
    simp only [stmtCanonB, Bool.and_eq_true] at h
    obtain ⟨⟨⟨⟨⟨⟨⟨h1, h2⟩, h3⟩, h4⟩, h5⟩, h6⟩, h7⟩, h8⟩ := h
    exact ⟨numCanon_of_B h1, strCanon_of_B h2, typeCanon_of_B h3, numCanon_of_B h4, conCanon_of_B h5,
      opt_of_B (fun _ => numCanon_of_B) h6, opt_of_B (fun _ => numCanon_of_B) h7, opt_of_B (fun _ => numCanon_of_B) h8⟩
  | slots ss =>
    simp only [stmtCanonB, List.all_eq_true, Bool.and_eq_true] at h
    intro s hs
    obtain ⟨⟨⟨h1, h2⟩, h3⟩, h4⟩ := h s hs
    exact ⟨numCanon_of_B h1, strCanon_of_B h2, numCanon_of_B h3, allowedCanon_of_B h4⟩
  | area a =>
    simp only [stmtCanonB, Bool.and_eq_true, Bool.not_eq_true', List.isEmpty_eq_false_iff, List.all_eq_true] at h
    exact ⟨numCanon_of_B h.1.1.1, numCanon_of_B h.1.1.2, h.1.2, fun l hl => lineOk_of_B (h.2 l hl)⟩
  | module m =>
    simp only [stmtCanonB, Bool.and_eq_true, Bool.not_eq_true', List.isEmpty_eq_false_iff, List.all_eq_true,
      decide_eq_true_eq] at h
    obtain ⟨⟨⟨⟨⟨h1, h2⟩, h3⟩, h4⟩, h5⟩, h6⟩ := h
    exact ⟨strCanon_of_B h1, h2, fun x hx => numCanon_of_B (h3 x hx), h4, opt_of_B (fun _ => natCanon_of_B) h5,
      fun s hs => settingCanon_of_B (h6 s hs)⟩
  | ignored => simp [stmtCanonB] at h

theorem astCanon_of_B {ast : Ast} (h : ast.all stmtCanonB = true) : ∀ st ∈ ast, StmtCanon st :=
  fun st hst => stmtCanon_of_B (List.all_eq_true.mp h st hst)

end PV.Gsd.Peg
