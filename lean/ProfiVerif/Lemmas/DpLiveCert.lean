/-
From the kernel-checked tables of `Lemmas/DpLiveTable*.lean` to statements about *runs* of the control
machine of property C07, for every retry limit `mr ≥ 1` and every retry count:

* `jinv_step`  : the joint invariant is preserved by every abstract environment step;
* `live_ctl`   : from every invariant control state, after `n ≥ mr + 8` fault-free visits the
                 peripheral is in `DataExchange`.
-/
import ProfiVerif.Lemmas.DpLiveTableIndF
import ProfiVerif.Lemmas.DpLiveTableIndT

namespace PV.Live
open PV PV.Dp

/-! ## Completeness of the enumerations -/

theorem mem_allBool (b : Bool) : b ∈ allBool := by cases b <;> simp [allBool]
theorem mem_allFcb (f : FrameCountBit) : f ∈ allFcb := by cases f <;> simp [allFcb]
theorem mem_allSState (s : SState) : s ∈ allSState := by cases s <;> simp [allSState]
theorem mem_allPState (s : PState) : s ∈ allPState := by cases s <;> simp [allPState]
theorem mem_allRCls (s : RCls) : s ∈ allRCls := by cases s <;> simp [allRCls]
theorem mem_allDFlags (s : DFlags) : s ∈ allDFlags := by cases s <;> simp [allDFlags]
theorem mem_allSCls (s : SCls) : s ∈ allSCls := by cases s <;> simp [allSCls]
theorem mem_allRK (k : RK) : k ∈ allRK := by
  cases k with
  | diag a b => cases a <;> cases b <;> simp [allRK]
  | _ => simp [allRK]

theorem mem_allView (v : View) : v ∈ allView := by
  unfold allView
  cases v with
  | sc => simp
  | diag f c =>
    apply List.mem_append_left; apply List.mem_append_right
    exact List.mem_flatMap.mpr ⟨f, mem_allDFlags f, List.mem_map.mpr ⟨c, mem_allSCls c, rfl⟩⟩
  | data c b =>
    apply List.mem_append_right
    exact List.mem_flatMap.mpr ⟨c, mem_allSCls c, List.mem_map.mpr ⟨b, mem_allBool b, rfl⟩⟩

theorem mem_allAD (d : AD) : d ∈ allAD := by
  unfold allAD
  cases d with
  | sub v => exact List.mem_append_right _ (List.mem_map.mpr ⟨v, mem_allView v, rfl⟩)
  | _ => simp

theorem mem_allAEnv (e : AEnv) : e ∈ allAEnv := by
  unfold allAEnv
  cases e with
  | visit mid d =>
    apply List.mem_append_left
    exact List.mem_flatMap.mpr ⟨mid, mem_allBool mid, List.mem_map.mpr ⟨d, mem_allAD d, rfl⟩⟩
  | _ => simp

theorem mem_coresOf (c : Core) : c ∈ coresOf c.st := by
  obtain ⟨st, fcb, dn, fl, ss, mem, dp⟩ := c
  unfold coresOf
  refine List.mem_flatMap.mpr ⟨fcb, mem_allFcb fcb, List.mem_flatMap.mpr ⟨dn, mem_allBool dn,
    List.mem_flatMap.mpr ⟨fl, mem_allBool fl, List.mem_flatMap.mpr ⟨ss, mem_allSState ss,
    List.mem_flatMap.mpr ⟨mem, ?_, List.mem_map.mpr ⟨dp, mem_allBool dp, rfl⟩⟩⟩⟩⟩⟩
  cases mem with
  | none => simp
  | some k => exact List.mem_append_right _ (List.mem_map.mpr ⟨k, mem_allRK k, rfl⟩)

/-! ## Reading the tables -/

theorem checkInductive_all (iz : Bool) (st : PState) : checkInductive iz st = true := by
  cases iz <;> cases st
  · exact ind_f_off
  · exact ind_f_prm
  · exact ind_f_cfg
  · exact ind_f_val
  · exact ind_f_pre
  · exact ind_f_dx
  · exact ind_t_off
  · exact ind_t_prm
  · exact ind_t_cfg
  · exact ind_t_val
  · exact ind_t_pre
  · exact ind_t_dx

theorem stepOk_of_jinv {iz : Bool} {c : Core} {rc : RCls} (h : jinvCore iz c rc = true) (e : AEnv) :
    stepOk iz c rc e = true := by
  have h1 := checkInductive_all iz c.st
  unfold checkInductive at h1
  have h2 := List.all_eq_true.mp h1 c (mem_coresOf c)
  have h3 := List.all_eq_true.mp h2 rc (mem_allRCls rc)
  rw [h] at h3
  simp only [Bool.not_true, Bool.false_or] at h3
  exact List.all_eq_true.mp h3 e (mem_allAEnv e)

theorem liveCert_of_jinv {iz : Bool} {c : Core} {rc : RCls} (h : jinvCore iz c rc = true) :
    liveCert iz c rc = true := by
  have h1 : allPState.all (checkLive iz) = true := by
    cases iz
    · exact table_live_f
    · exact table_live_t
  have h2 := List.all_eq_true.mp h1 c.st (mem_allPState _)
  unfold checkLive at h2
  have h3 := List.all_eq_true.mp h2 c (mem_coresOf c)
  have h4 := List.all_eq_true.mp h3 rc (mem_allRCls rc)
  rw [h] at h4
  simpa using h4

theorem steady_next {iz : Bool} {c : Core} (h : steady c = true) :
    (nextC iz c .zero).2 = .reset ∧ steady (nextC iz c .zero).1 = true := by
  have hst : c.st = .dataExchange := by
    unfold steady at h
    simp only [Bool.and_eq_true, beq_iff_eq] at h
    exact h.1.1.1
  have h1 : checkSteady iz = true := by
    cases iz
    · exact table_steady_f
    · exact table_steady_t
  unfold checkSteady at h1
  have h2 := List.all_eq_true.mp h1 c (hst ▸ mem_coresOf c)
  rw [h] at h2
  simpa using h2

/-! ## The invariant on `Ctl` -/

theorem rcls_zero {mr : Nat} : rcls mr 0 = .zero := by simp [rcls]
theorem rcls_pos {mr r : Nat} (h1 : 1 ≤ r) (h2 : r ≤ mr) : rcls mr r = .pos := by
  unfold rcls; rw [if_neg (by omega), if_neg (by omega)]
theorem rcls_over {mr r : Nat} (h : mr < r) : rcls mr r = .over := by
  unfold rcls; rw [if_pos h]

theorem rcls_cases (mr r : Nat) :
    (r = 0 ∧ rcls mr r = .zero) ∨ (1 ≤ r ∧ r ≤ mr ∧ rcls mr r = .pos) ∨ (mr < r ∧ rcls mr r = .over) := by
  by_cases h : mr < r
  · exact Or.inr (Or.inr ⟨h, rcls_over h⟩)
  · by_cases h0 : r = 0
    · subst h0; by_cases hm : mr < 0
      · omega
      · exact Or.inl ⟨rfl, rcls_zero⟩
    · exact Or.inr (Or.inl ⟨by omega, by omega, rcls_pos (by omega) (by omega)⟩)

theorem cstepCore_over_act (iz : Bool) (c : Core) (e : AEnv) : (cstepCore iz c .over e).2.1 ≠ .inc := by
  cases e <;> simp [cstepCore, cvisit]

/-- The joint invariant is preserved by every abstract environment step. -/
theorem jinv_step {mr : Nat} (hmr : 1 ≤ mr) {iz : Bool} {c : Ctl} (h : jinv mr iz c = true) (e : AEnv) :
    jinv mr iz (cstep mr iz c e).1 = true := by
  unfold jinv at h
  simp only [Bool.and_eq_true, decide_eq_true_eq, Bool.or_eq_true, bne_iff_ne, ne_eq] at h
  obtain ⟨⟨hj, hr⟩, hoff⟩ := h
  have hs := stepOk_of_jinv hj e
  unfold stepOk at hs
  have hov := cstepCore_over_act iz c.core e
  unfold cstep
  obtain ⟨c', act, ev, hc'⟩ : ∃ c' act ev, cstepCore iz c.core (rcls mr c.retry) e = (c', act, ev) := ⟨_, _, _, rfl⟩
  simp only [hc'] at hs ⊢
  simp only [Bool.and_eq_true, Bool.or_eq_true, beq_iff_eq, bne_iff_ne, ne_eq, List.all_eq_true] at hs
  obtain ⟨⟨hs1, hs2⟩, hs3⟩ := hs
  -- the class afterwards is one of the successor classes
  have hcls : rcls mr (act.apply c.retry) ∈ succCls (rcls mr c.retry) act ∧ act.apply c.retry ≤ mr + 1 := by
    rcases rcls_cases mr c.retry with ⟨h0, hc⟩ | ⟨h1, h2, hc⟩ | ⟨h1, hc⟩
    · rw [hc]
      cases act
      · exact ⟨by simp [RAct.apply, succCls, rcls_zero], by simp [RAct.apply]⟩
      · refine ⟨?_, by simp only [RAct.apply]; omega⟩
        simp only [RAct.apply, h0, succCls, List.mem_singleton, Nat.zero_add]
        exact rcls_pos (Nat.le_refl 1) hmr
      · exact ⟨by simp [RAct.apply, succCls, hc], by simp only [RAct.apply]; omega⟩
    · rw [hc]
      cases act
      · exact ⟨by simp [RAct.apply, succCls, rcls_zero], by simp [RAct.apply]⟩
      · refine ⟨?_, by simp only [RAct.apply]; omega⟩
        simp only [RAct.apply, succCls]
        by_cases h3 : c.retry + 1 ≤ mr
        · simp [rcls_pos (by omega) h3]
        · simp [rcls_over (show mr < c.retry + 1 by omega)]
      · exact ⟨by simp [RAct.apply, succCls, hc], by simp only [RAct.apply]; omega⟩
    · rw [hc] at hc'
      rw [hc'] at hov
      rw [hc]
      cases act
      · exact ⟨by simp [RAct.apply, succCls, rcls_zero], by simp [RAct.apply]⟩
      · exact absurd rfl hov
      · exact ⟨by simp [RAct.apply, succCls, hc], by simp only [RAct.apply]; omega⟩
  unfold jinv
  simp only [Bool.and_eq_true, decide_eq_true_eq, Bool.or_eq_true, bne_iff_ne, ne_eq]
  refine ⟨⟨hs1 _ hcls.1, hcls.2⟩, ?_⟩
  by_cases ho' : c'.st = .offline
  · right
    by_cases ho : c.core.st = .offline
    · have hr1 : c.retry ≤ 1 := by
        rcases hoff with h | h
        · exact absurd ho h
        · exact h
      cases act
      · simp [RAct.apply]
      · simp only [RAct.apply]
        rcases hs3 with h | h
        · rcases h with h | h
          · exact absurd ho h
          · -- class is not `pos`: the counter is 0
            rcases rcls_cases mr c.retry with ⟨h0, _⟩ | ⟨_, _, hc⟩ | ⟨h1, _⟩
            · omega
            · exact absurd hc h
            · omega
        · exact absurd rfl h
      · simpa [RAct.apply] using hr1
    · rcases hs2 with h | h
      · rcases h with h | h
        · exact absurd h ho
        · exact absurd ho' h
      · subst h; simp [RAct.apply]
  · left; exact ho'

/-! ## Runs of fault-free visits -/

def iterQ (mr : Nat) (iz : Bool) : Nat → Ctl → Ctl
  | 0, c => c
  | n + 1, c => iterQ mr iz n (cquiet mr iz c)

theorem iterQ_add (mr : Nat) (iz : Bool) (a b : Nat) (c : Ctl) :
    iterQ mr iz (a + b) c = iterQ mr iz b (iterQ mr iz a c) := by
  induction a generalizing c with
  | zero => simp [iterQ]
  | succ a ih => rw [Nat.add_right_comm]; simp only [iterQ]; exact ih _

theorem cquiet_eq (mr : Nat) (iz : Bool) (c : Core) (r : Nat) :
    cquiet mr iz ⟨c, r⟩ = ⟨(nextC iz c (rcls mr r)).1, (nextC iz c (rcls mr r)).2.apply r⟩ := rfl

theorem cquiet_over {mr : Nat} (iz : Bool) (c : Core) {r : Nat} (h : mr < r) :
    cquiet mr iz ⟨c, r⟩ = ⟨offC c, 0⟩ := by
  rw [cquiet_eq, rcls_over h]; rfl

theorem stutter_eq {iz : Bool} {c : Core} (h : stutter iz c = true) : nextC iz c .pos = (c, .inc) := by
  unfold stutter at h; exact eq_of_beq h

theorem stutter_run {mr : Nat} {iz : Bool} {c : Core} (h : stutter iz c = true) :
    ∀ (k r : Nat), 1 ≤ r → r + k ≤ mr + 1 → iterQ mr iz k ⟨c, r⟩ = ⟨c, r + k⟩ := by
  intro k
  induction k with
  | zero => intro r _ _; rfl
  | succ k ih =>
    intro r h1 h2
    simp only [iterQ]
    rw [cquiet_eq, rcls_pos h1 (by omega), stutter_eq h]
    simp only [RAct.apply]
    rw [ih (r + 1) (by omega) (by omega)]
    congr 1; omega

/-- A stutter episode from retry count `r ≥ 1`: the counter runs up to the limit, the next visit
declares the peripheral offline. -/
theorem stutter_episode {mr : Nat} {iz : Bool} {c : Core} (h : stutter iz c = true) {r : Nat}
    (h1 : 1 ≤ r) (h2 : r ≤ mr + 1) : iterQ mr iz (mr + 1 - r + 1) ⟨c, r⟩ = ⟨offC c, 0⟩ := by
  rw [iterQ_add, stutter_run h (mr + 1 - r) r h1 (by omega)]
  simp only [iterQ]
  rw [show r + (mr + 1 - r) = mr + 1 by omega]
  exact cquiet_over iz c (by omega)

theorem chain_sound {mr : Nat} (hmr : 1 ≤ mr) (iz : Bool) :
    ∀ (fuel : Nat) (c : Core) (a b : Nat) (d : Core), chain iz fuel c = some (a, b, d) →
      iterQ mr iz (a + b * (mr + 2)) ⟨c, 0⟩ = ⟨d, 0⟩ ∧ steady d = true := by
  intro fuel
  induction fuel with
  | zero => intro c a b d h; simp [chain] at h
  | succ fuel ih =>
    intro c a b d h
    unfold chain at h
    by_cases hs : steady c = true
    · rw [if_pos hs] at h
      simp only [Option.some.injEq, Prod.mk.injEq] at h
      obtain ⟨rfl, rfl, rfl⟩ := h
      exact ⟨by simp [iterQ], hs⟩
    · rw [if_neg hs] at h
      obtain ⟨n1, act, hn⟩ : ∃ n1 act, nextC iz c .zero = (n1, act) := ⟨_, _, rfl⟩
      simp only [hn] at h
      have hq : cquiet mr iz ⟨c, 0⟩ = ⟨n1, act.apply 0⟩ := by rw [cquiet_eq, rcls_zero, hn]
      cases act with
      | reset =>
        simp only at h
        cases hc : chain iz fuel n1 with
        | none => simp [hc] at h
        | some x =>
          obtain ⟨a', b', d'⟩ := x
          simp only [hc, Option.some.injEq, Prod.mk.injEq] at h
          obtain ⟨rfl, rfl, rfl⟩ := h
          obtain ⟨h1, h2⟩ := ih n1 a' b' d' hc
          refine ⟨?_, h2⟩
          rw [show a' + 1 + b' * (mr + 2) = (a' + b' * (mr + 2)) + 1 by omega]
          simp only [iterQ]
          rw [hq]; exact h1
      | inc =>
        simp only at h
        by_cases hst : stutter iz n1 = true
        · rw [if_pos hst] at h
          cases hc : chain iz fuel (offC n1) with
          | none => simp [hc] at h
          | some x =>
            obtain ⟨a', b', d'⟩ := x
            simp only [hc, Option.some.injEq, Prod.mk.injEq] at h
            obtain ⟨rfl, rfl, rfl⟩ := h
            obtain ⟨h1, h2⟩ := ih (offC n1) a' b' d' hc
            refine ⟨?_, h2⟩
            rw [show a' + (b' + 1) * (mr + 2) = 1 + ((mr + 1 - 1 + 1) + (a' + b' * (mr + 2))) by
              rw [Nat.add_mul]; omega]
            rw [iterQ_add]
            simp only [iterQ]
            rw [hq]
            simp only [RAct.apply]
            rw [iterQ_add, stutter_episode hst (Nat.le_refl 1) (by omega)]
            exact h1
        · rw [if_neg hst] at h; simp at h
      | keep => simp at h

theorem steady_run {mr : Nat} {iz : Bool} : ∀ (n : Nat) (d : Core), steady d = true →
    ∃ d', iterQ mr iz n ⟨d, 0⟩ = ⟨d', 0⟩ ∧ steady d' = true := by
  intro n
  induction n with
  | zero => intro d h; exact ⟨d, rfl, h⟩
  | succ n ih =>
    intro d h
    obtain ⟨h1, h2⟩ := steady_next (iz := iz) h
    simp only [iterQ]
    rw [cquiet_eq, rcls_zero, h1]
    exact ih _ h2

theorem steady_running {c : Ctl} (h : steady c.core = true) : c.running = true := by
  unfold steady at h
  simp only [Bool.and_eq_true] at h
  exact h.1.1.1

/-- Reaching a steady state after `T` visits: running at every later time. -/
theorem running_after {mr : Nat} {iz : Bool} {c : Ctl} {T : Nat} {d : Core}
    (h : iterQ mr iz T c = ⟨d, 0⟩) (hd : steady d = true) {n : Nat} (hn : T ≤ n) :
    (iterQ mr iz n c).running = true := by
  obtain ⟨k, rfl⟩ : ∃ k, n = T + k := ⟨n - T, by omega⟩
  rw [iterQ_add, h]
  obtain ⟨d', h1, h2⟩ := steady_run (mr := mr) (iz := iz) k d hd
  rw [h1]
  exact steady_running h2

theorem withinSlack_elim {s : Nat} {x : Option (Nat × Nat × Core)} (h : withinSlack s x = true) :
    ∃ a b d, x = some (a, b, d) ∧ ((b = 0 ∧ a ≤ s + 1) ∨ (b = 1 ∧ a + 2 ≤ s)) := by
  cases x with
  | none => simp [withinSlack] at h
  | some y =>
    obtain ⟨a, b, d⟩ := y
    refine ⟨a, b, d, rfl, ?_⟩
    simpa [withinSlack] using h

theorem offChain_elim {x : Option (Nat × Nat × Core)}
    (h : (match x with | some (a, b, _) => b == 0 && decide (a ≤ 7) | none => false) = true) :
    ∃ a d, x = some (a, 0, d) ∧ a ≤ 7 := by
  cases x with
  | none => simp at h
  | some y =>
    obtain ⟨a, b, d⟩ := y
    simp only [Bool.and_eq_true, beq_iff_eq, decide_eq_true_eq] at h
    exact ⟨a, d, by rw [h.1], h.2⟩

/-- Liveness of the control machine: from every invariant state, for every retry limit ≥ 1 and every
retry count, the peripheral is in data exchange after `mr + 8` fault-free visits, and stays. -/
theorem live_ctl {mr : Nat} (hmr : 1 ≤ mr) {iz : Bool} {c : Ctl} (h : jinv mr iz c = true) {n : Nat}
    (hn : mr + 8 ≤ n) : (iterQ mr iz n c).running = true := by
  obtain ⟨c, r⟩ := c
  unfold jinv at h
  simp only [Bool.and_eq_true] at h
  have hcert := liveCert_of_jinv h.1.1
  rcases rcls_cases mr r with ⟨h0, hc⟩ | ⟨h1, h2, hc⟩ | ⟨h1, hc⟩
  · -- retry count 0
    subst h0
    rw [hc] at hcert
    simp only [liveCert] at hcert
    obtain ⟨a, b, d, hch, hb⟩ := withinSlack_elim hcert
    obtain ⟨hrun, hst⟩ := chain_sound hmr iz 12 c a b d hch
    refine running_after hrun hst ?_
    rcases hb with ⟨rfl, ha⟩ | ⟨rfl, ha⟩ <;> omega
  · -- a retransmission is due
    rw [hc] at hcert
    simp only [liveCert] at hcert
    obtain ⟨n1, act, hnx⟩ : ∃ n1 act, nextC iz c .pos = (n1, act) := ⟨_, _, rfl⟩
    simp only [hnx] at hcert
    have hq : cquiet mr iz ⟨c, r⟩ = ⟨n1, act.apply r⟩ := by rw [cquiet_eq, hc, hnx]
    cases act with
    | reset =>
      simp only at hcert
      obtain ⟨a, b, d, hch, hb⟩ := withinSlack_elim hcert
      obtain ⟨hrun, hst⟩ := chain_sound hmr iz 12 n1 a b d hch
      have hT : iterQ mr iz (1 + (a + b * (mr + 2))) ⟨c, r⟩ = ⟨d, 0⟩ := by
        rw [iterQ_add]; simp only [iterQ]; rw [hq]; exact hrun
      refine running_after hT hst ?_
      rcases hb with ⟨rfl, ha⟩ | ⟨rfl, ha⟩ <;> omega
    | inc =>
      simp only [Bool.and_eq_true] at hcert
      obtain ⟨hst1, hoffc⟩ := hcert
      obtain ⟨a, d, hch, ha⟩ := offChain_elim hoffc
      obtain ⟨hrun, hst⟩ := chain_sound hmr iz 12 (offC n1) a 0 d hch
      have hT : iterQ mr iz (1 + ((mr + 1 - (r + 1) + 1) + (a + 0 * (mr + 2)))) ⟨c, r⟩ = ⟨d, 0⟩ := by
        rw [iterQ_add]; simp only [iterQ]; rw [hq]
        simp only [RAct.apply]
        rw [iterQ_add, stutter_episode hst1 (by omega) (by omega)]
        exact hrun
      refine running_after hT hst ?_
      omega
    | keep => simp at hcert
  · -- the limit is exceeded: the next visit declares the peripheral offline
    rw [hc] at hcert
    simp only [liveCert] at hcert
    obtain ⟨a, d, hch, ha⟩ := offChain_elim hcert
    obtain ⟨hrun, hst⟩ := chain_sound hmr iz 12 (offC c) a 0 d hch
    have hT : iterQ mr iz (1 + (a + 0 * (mr + 2))) ⟨c, r⟩ = ⟨d, 0⟩ := by
      rw [iterQ_add]; simp only [iterQ]; rw [cquiet_over iz c h1]; exact hrun
    refine running_after hT hst ?_
    omega

end PV.Live
