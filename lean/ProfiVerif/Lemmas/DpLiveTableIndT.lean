/-
Table `checkInductive` of property C07 (see `Lemmas/DpLiveTable.lean`) for a slave without inputs, split by
peripheral state so that each kernel evaluation stays short.
-/
import ProfiVerif.Lemmas.DpLiveTable

namespace PV.Live
open PV PV.Dp

set_option maxRecDepth 1000000

theorem ind_t_off : checkInductive true .offline = true := by decide +kernel
theorem ind_t_prm : checkInductive true .waitForParam = true := by decide +kernel
theorem ind_t_cfg : checkInductive true .waitForConfig = true := by decide +kernel
theorem ind_t_val : checkInductive true .validateConfig = true := by decide +kernel
theorem ind_t_pre : checkInductive true .preDataExchange = true := by decide +kernel
theorem ind_t_dx : checkInductive true .dataExchange = true := by decide +kernel

end PV.Live
