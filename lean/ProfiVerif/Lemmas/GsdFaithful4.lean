/-
Stage lemmas for `interp_faithful`, part 4: slots, unit diagnostics.
-/
import ProfiVerif.Lemmas.GsdFaithful3

namespace PV.Gsd
open Res

/-! ### Stage 5: slots -/

/-- Index `i` names a module that a slot can refer to: it has a reference number that fits `u16`
and it is the first module with that number. -/
def RefOk (mods : List Module) (i : Nat) : Prop :=
  ∃ m r, mods[i]? = some m ∧ m.reference = some r ∧ r ≤ 65535 ∧ findModule mods r = some i

structure Slot.WF (mods : List Module) (s : Slot) : Prop where
  name : Clean s.name
  number : s.number ≤ 255
  default : RefOk mods s.default
  allowed : ∀ i ∈ s.allowed, RefOk mods i

theorem refOf_ok {mods : List Module} {i : Nat} (h : RefOk mods i) :
    refOf mods i ≤ 65535 ∧ findModule mods (refOf mods i) = some i := by
  obtain ⟨m, r, hm, hr, hle, hf⟩ := h
  simp [refOf, hm, hr, hle, hf]

theorem slotSet_ok (mods : List Module) (is : List Nat) (h : ∀ i ∈ is, RefOk mods i) :
    slotSet mods (is.map fun i => decTok (refOf mods i)) = .ok (is, []) := by
  induction is with
  | nil => rfl
  | cons i rest ih =>
    have hi := refOf_ok (h i (by simp))
    simp only [List.map_cons, slotSet]
    rw [parseTok_decTok_ok (show refOf mods i ≤ u16Max from hi.1) (by decide)]
    simp only [bind_ok]
    rw [ih fun j hj => h j (by simp [hj])]
    simp [hi.2]

def withSlots (st : St) (ss : List Slot) (ws : List Warn) : St :=
  { st with gsd := { st.gsd with slots := st.gsd.slots ++ ss }, warnings := ws }

theorem doSlot_ok (st : St) (s : Slot) (h : s.WF st.gsd.availableModules) :
    ∃ ws, doSlot st (slotStmt st.gsd.availableModules s) = .ok (withSlots st [s] ws) := by
  obtain ⟨name, number, dflt, allowed⟩ := s
  have hd := refOf_ok h.default
  simp only [doSlot, slotStmt]
  rw [parseTok_decTok_ok (show number ≤ u8Max from h.number) (by decide)]
  simp only [bind_ok]
  rw [parseTok_decTok_ok (show refOf st.gsd.availableModules dflt ≤ u16Max from hd.1) (by decide)]
  simp only [bind_ok]
  rw [slotSet_ok _ _ h.allowed]
  simp only [bind_ok, hd.2]
  rw [show unquote (quote name) = name from h.name]
  exact ⟨_, rfl⟩

theorem doSlots_ok (st : St) (ss : List Slot) (h : ∀ s ∈ ss, s.WF st.gsd.availableModules) :
    ∃ ws, doSlots st (ss.map (slotStmt st.gsd.availableModules)) = .ok (withSlots st ss ws) := by
  induction ss generalizing st with
  | nil =>
    refine ⟨st.warnings, ?_⟩
    obtain ⟨gsd, _, _, _, _, _, _⟩ := st
    cases gsd
    simp [doSlots, withSlots]
  | cons s rest ih =>
    obtain ⟨ws1, h1⟩ := doSlot_ok st s (h s (by simp))
    obtain ⟨ws2, h2⟩ := ih (withSlots st [s] ws1) (fun s' hs' => h s' (by simp [hs']))
    refine ⟨ws2, ?_⟩
    simp only [List.map_cons, doSlots]
    rw [h1]
    simp only [bind_ok]
    have hm : (withSlots st [s] ws1).gsd.availableModules = st.gsd.availableModules := rfl
    rw [hm] at h2
    rw [h2]
    simp [withSlots]

/-! ### Stage 6: unit diagnostic bits -/

def getBits (nb : Bool) (st : St) : List (Nat × BitInfo) := if nb then st.gsd.diagNotBits else st.gsd.diagBits

def setBits (nb : Bool) (st : St) (m : List (Nat × BitInfo)) : St :=
  if nb then { st with gsd := { st.gsd with diagNotBits := m } } else { st with gsd := { st.gsd with diagBits := m } }

theorem getBits_setBits (nb : Bool) (st : St) (m : List (Nat × BitInfo)) : getBits nb (setBits nb st m) = m := by
  cases nb <;> rfl

theorem setBits_setBits (nb : Bool) (st : St) (m m' : List (Nat × BitInfo)) :
    setBits nb (setBits nb st m) m' = setBits nb st m' := by
  cases nb <;> rfl

theorem setBits_getBits (nb : Bool) (st : St) : setBits nb st (getBits nb st) = st := by
  obtain ⟨gsd, _, _, _, _, _, _⟩ := st
  cases gsd
  cases nb <;> rfl

theorem diagBit_ok (key : Str) (st : St) (nb hp : Bool) (k : Nat) (t : Str) (hk : k ≤ u32Max) (ht : Clean t) :
    diagBit st { key := key, index := some (decTok k), value := .str (quote t) } nb hp =
      .ok (setBits nb st (assocUpdate k {}
        (fun b => if hp then { b with help := some t } else { b with text := t }) (getBits nb st))) := by
  simp only [diagBit, Setting.first, Setting.second, parseNumber]
  rw [parseTok_decTok_ok' hk hk]
  simp only [bind_ok, parseStr_quote ht]
  cases nb <;> simp [setBits, getBits]

/-- What a pair of keys (`Unit_Diag_Bit` / `Unit_Diag_Bit_Help` or the `Not` variants) does. -/
structure BitKeys (nb : Bool) (key helpKey : String) : Prop where
  text : ∀ (st : St) (s : Setting), s.key = key.toList → doStmt st (.setting s) = diagBit st s nb false
  help : ∀ (st : St) (s : Setting), s.key = helpKey.toList → doStmt st (.setting s) = diagBit st s nb true

theorem doSetting_special (st : St) (s : Setting) (h1 : strSetter (lower s.key) = none)
    (h2 : numSetter (lower s.key) = none) (h3 : boolSetter (lower s.key) = none) :
    doStmt st (.setting s) = specialSetting st (lower s.key) s := by
  simp [doStmt, doSetting, h1, h2, h3]

theorem bitKeys : BitKeys false "Unit_Diag_Bit" "Unit_Diag_Bit_Help" := by
  constructor
  · intro st s hs
    have hk : lower s.key = "unit_diag_bit".toList := by rw [hs]; rfl
    rw [doSetting_special st s (by rw [hk]; rfl) (by rw [hk]; rfl) (by rw [hk]; rfl), hk]
    simp [specialSetting]
  · intro st s hs
    have hk : lower s.key = "unit_diag_bit_help".toList := by rw [hs]; rfl
    rw [doSetting_special st s (by rw [hk]; rfl) (by rw [hk]; rfl) (by rw [hk]; rfl), hk]
    simp [specialSetting]

theorem notBitKeys : BitKeys true "Unit_Diag_Not_Bit" "Unit_Diag_Not_Bit_Help" := by
  constructor
  · intro st s hs
    have hk : lower s.key = "unit_diag_not_bit".toList := by rw [hs]; rfl
    rw [doSetting_special st s (by rw [hk]; rfl) (by rw [hk]; rfl) (by rw [hk]; rfl), hk]
    simp [specialSetting]
  · intro st s hs
    have hk : lower s.key = "unit_diag_not_bit_help".toList := by rw [hs]; rfl
    rw [doSetting_special st s (by rw [hk]; rfl) (by rw [hk]; rfl) (by rw [hk]; rfl), hk]
    simp [specialSetting]

structure BitsOk (bits : List (Nat × BitInfo)) : Prop where
  nodup : (keys bits).Nodup
  wf : ∀ b ∈ bits, b.1 ≤ u32Max ∧ Clean b.2.text ∧ ∀ h, b.2.help = some h → Clean h

theorem assocUpdate_new {α : Type} (k : Nat) (dflt : α) (f : α → α) (m : List (Nat × α)) (h : k ∉ keys m) :
    assocUpdate k dflt f m = m ++ [(k, f dflt)] := by
  simp [assocUpdate, assocGet_none_of_not_mem k m h, assocInsert_new k _ m h]

theorem assocUpdate_last {α : Type} (k : Nat) (dflt v : α) (f : α → α) (m : List (Nat × α)) (h : k ∉ keys m) :
    assocUpdate k dflt f (m ++ [(k, v)]) = m ++ [(k, f v)] := by
  simp [assocUpdate, assocGet_append_self k v m h, assocInsert_append_self k v _ m h]

theorem run_bitStmts (nb : Bool) (key helpKey : String) (hkeys : BitKeys nb key helpKey)
    (st : St) (bits : List (Nat × BitInfo)) (hn : (keys (getBits nb st ++ bits)).Nodup)
    (hwf : ∀ b ∈ bits, b.1 ≤ u32Max ∧ Clean b.2.text ∧ ∀ h, b.2.help = some h → Clean h) :
    run st (bitStmts key helpKey bits) = .ok (setBits nb st (getBits nb st ++ bits)) := by
  induction bits generalizing st with
  | nil => simp [bitStmts, run, setBits_getBits]
  | cons b rest ih =>
    obtain ⟨k, text, help⟩ := b
    have hb := hwf (k, ⟨text, help⟩) (by simp)
    have hnew : k ∉ keys (getBits nb st) := by
      simp only [keys, List.map_append, List.map_cons] at hn
      have := (List.nodup_append.mp hn).2.2
      intro hmem
      exact this k hmem k (by simp) rfl
    have hstep : ∃ st1, run st (bitStmts key helpKey [(k, ⟨text, help⟩)]) = .ok st1 ∧
        st1 = setBits nb st (getBits nb st ++ [(k, ⟨text, help⟩)]) := by
      cases help with
      | none =>
        refine ⟨_, ?_, rfl⟩
        simp only [bitStmts, List.flatMap_cons, List.flatMap_nil, List.append_nil, run]
        rw [hkeys.text st _ rfl, diagBit_ok _ st nb false k text hb.1 hb.2.1]
        simp only [bind_ok, assocUpdate_new k _ _ _ hnew]
        rfl
      | some h =>
        refine ⟨_, ?_, rfl⟩
        simp only [bitStmts, List.flatMap_cons, List.flatMap_nil, List.append_nil, run]
        rw [hkeys.text st _ rfl, diagBit_ok _ st nb false k text hb.1 hb.2.1]
        simp only [bind_ok, assocUpdate_new k _ _ _ hnew]
        rw [hkeys.help _ _ rfl, diagBit_ok _ _ nb true k h hb.1 (hb.2.2 h rfl)]
        simp only [bind_ok, getBits_setBits, assocUpdate_last k _ _ _ _ hnew, setBits_setBits]
        rfl
    obtain ⟨st1, hrun1, hst1⟩ := hstep
    have hsplit : bitStmts key helpKey ((k, ⟨text, help⟩) :: rest) =
        bitStmts key helpKey [(k, ⟨text, help⟩)] ++ bitStmts key helpKey rest := by
      simp [bitStmts]
    rw [hsplit, run_append_ok hrun1, hst1]
    rw [ih _ (by simpa [getBits_setBits] using hn) (fun b hb' => hwf b (by simp [hb']))]
    simp [getBits_setBits, setBits_setBits]

/-! ### Stage 7: unit diagnostic areas -/

structure Area.WF (a : Area) : Prop where
  first : a.first ≤ 65535
  last : a.last ≤ 65535
  nodup : (keys a.values).Nodup
  values : ∀ kv ∈ a.values, kv.1 ≤ 65535 ∧ Clean kv.2

theorem areaValues_lines (vs acc : List (Nat × Str)) (hv : ∀ kv ∈ vs, kv.1 ≤ 65535 ∧ Clean kv.2)
    (hn : (keys (acc ++ vs)).Nodup) :
    areaValues (areaLines vs) acc = .ok (acc ++ vs) := by
  induction vs generalizing acc with
  | nil => simp [areaLines, areaValues]
  | cons kv rest ih =>
    obtain ⟨k, v⟩ := kv
    have hk := hv (k, v) (by simp)
    simp only [areaLines, List.map_cons, areaValues]
    rw [parseTok_decTok_ok (show k ≤ u16Max from hk.1) (by decide)]
    simp only [bind_ok]
    rw [show unquote (quote v) = v from hk.2]
    have hnew : k ∉ keys acc := by
      simp only [keys, List.map_append, List.map_cons] at hn
      have := (List.nodup_append.mp hn).2.2
      intro hmem
      exact this k hmem k (by simp) rfl
    rw [assocInsert_new k v acc hnew]
    have := ih (acc ++ [(k, v)]) (fun kv hkv => hv kv (by simp [hkv])) (by simpa using hn)
    simpa [areaLines] using this

theorem doStmt_area (st : St) (a : Area) (h : a.WF) :
    doStmt st (areaStmt a) = .ok { st with gsd := { st.gsd with diagAreas := st.gsd.diagAreas ++ [a] } } := by
  obtain ⟨first, last, values⟩ := a
  simp only [doStmt, areaStmt, doArea]
  rw [parseTok_decTok_ok (show first ≤ u16Max from h.first) (by decide)]
  simp only [bind_ok]
  rw [parseTok_decTok_ok (show last ≤ u16Max from h.last) (by decide)]
  simp only [bind_ok]
  rw [areaValues_lines values [] h.values (by simpa using h.nodup)]
  simp

theorem run_areas (st : St) (areas : List Area) (h : ∀ a ∈ areas, a.WF) :
    run st (areas.map areaStmt) = .ok { st with gsd := { st.gsd with diagAreas := st.gsd.diagAreas ++ areas } } := by
  induction areas generalizing st with
  | nil =>
    obtain ⟨gsd, _, _, _, _, _, _⟩ := st
    cases gsd
    simp [run]
  | cons a rest ih =>
    simp only [List.map_cons]
    rw [run_cons_ok (doStmt_area st a (h a (by simp)))]
    rw [ih _ fun a' ha' => h a' (by simp [ha'])]
    simp

end PV.Gsd
