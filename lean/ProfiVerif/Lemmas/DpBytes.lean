/-
Byte-level facts about the DP master's per-peripheral requests (`Model/Dp/Peripheral.lean`):

1. the watchdog factor search of `ParametersBuilder::watchdog_timeout` (`watchdogFactors`),
2. the byte layout of the Set_Prm PDU (`setPrmPdu`) in plain arithmetic,
3. the closed form of `Peripheral.transmit` per state, and — through C09 (`Lemmas/Codec.lean`) — the
   exact bytes it puts on the wire and that the decoder reads them back,
4. the DA / SA / SAP / function-code fields of the four request headers.

Every theorem is followed (or, for part 3, followed at the end of the file) by `example`s showing
that its hypotheses are satisfiable by a concrete non-trivial value.
-/
import ProfiVerif.Model.Dp.Peripheral
import ProfiVerif.Lemmas.Codec

namespace PV.Dp
open PV

/-! ## (1) Watchdog factor search -/

/-- General description of the `for f1 in ..` loop: either every candidate in `[f1, f1 + fuel)` has a
ceiling quotient that does not fit a byte and the search fails, or the result is the *first*
candidate `f` whose ceiling quotient `(t + f - 1) / f` is below 256. -/
theorem wdSearch_spec (t : Nat) : ∀ fuel f1 : Nat,
    (wdSearch t fuel f1 = none ∧ ∀ g, f1 ≤ g → g < f1 + fuel → 256 ≤ (t + g - 1) / g) ∨
    (∃ f, f1 ≤ f ∧ f < f1 + fuel ∧ wdSearch t fuel f1 = some (f, (t + f - 1) / f) ∧
      (t + f - 1) / f < 256 ∧ ∀ g, f1 ≤ g → g < f → 256 ≤ (t + g - 1) / g) := by
  intro fuel
  induction fuel with
  | zero =>
    intro f1
    left
    refine ⟨rfl, ?_⟩
    intro g h1 h2
    omega
  | succ n ih =>
    intro f1
    by_cases hq : (t + f1 - 1) / f1 < 256
    · right
      refine ⟨f1, Nat.le_refl _, by omega, ?_, hq, ?_⟩
      · simp only [wdSearch, hq, if_true]
      · intro g h1 h2
        omega
    · have hstep : wdSearch t (n + 1) f1 = wdSearch t n (f1 + 1) := by
        simp only [wdSearch, hq, if_false]
      rcases ih (f1 + 1) with ⟨hn, hall⟩ | ⟨f, hf1, hf2, hs, hlt, hall⟩
      · left
        refine ⟨by rw [hstep, hn], ?_⟩
        intro g h1 h2
        by_cases hg : g = f1
        · subst hg; omega
        · exact hall g (by omega) (by omega)
      · right
        refine ⟨f, by omega, by omega, by rw [hstep, hs], hlt, ?_⟩
        intro g h1 h2
        by_cases hg : g = f1
        · subst hg; omega
        · exact hall g (by omega) h2

/-- With at most 65000 ten-millisecond units the candidate 255 always fits, so the full loop
(`1..256`) cannot fail. -/
theorem wdSearch_full (t : Nat) (ht : t ≤ 65000) :
    ∃ f, 1 ≤ f ∧ f ≤ 255 ∧ wdSearch t 255 1 = some (f, (t + f - 1) / f) ∧
      (t + f - 1) / f < 256 ∧ ∀ g, 1 ≤ g → g < f → 256 ≤ (t + g - 1) / g := by
  rcases wdSearch_spec t 255 1 with ⟨_, hall⟩ | ⟨f, h1, h2, hs, hlt, hall⟩
  · exfalso
    have h := hall 255 (by omega) (by omega)
    have h' : (t + 255 - 1) / 255 < 256 := by
      rw [Nat.div_lt_iff_lt_mul (by omega)]
      omega
    omega
  · exact ⟨f, h1, by omega, hs, hlt, hall⟩

/-- `watchdog_timeout` panics exactly for durations below 10 ms or above 650 s. -/
theorem watchdogFactors_none_iff (ms : Nat) :
    watchdogFactors ms = none ↔ (ms < 10 ∨ 650000 < ms) := by
  constructor
  · intro h
    by_cases hc : ms < 10 ∨ 650000 < ms
    · exact hc
    · exfalso
      have ht : ms / 10 ≤ 65000 := by omega
      obtain ⟨f, _, _, hs, _, _⟩ := wdSearch_full (ms / 10) ht
      simp [watchdogFactors, hc, hs] at h
  · intro h
    simp [watchdogFactors, h]

/-- Inside the accepted range the two factors are bytes in `1..=255`, `f2` is the ceiling of
`(ms / 10) / f1` (so `f1 * f2` is the smallest multiple of `f1` that is at least `ms / 10`), and `f1`
is the least factor for which that ceiling fits a byte. -/
theorem watchdog_factors_spec (ms : Nat) (h1 : 10 ≤ ms) (h2 : ms ≤ 650000) :
    ∃ f1 f2 : Nat, watchdogFactors ms = some (UInt8.ofNat f1, UInt8.ofNat f2) ∧
      1 ≤ f1 ∧ f1 ≤ 255 ∧ 1 ≤ f2 ∧ f2 ≤ 255 ∧ ms / 10 ≤ f1 * f2 ∧ f1 * f2 < ms / 10 + f1 ∧
      (∀ g, 1 ≤ g → g < f1 → 256 ≤ (ms / 10 + g - 1) / g) := by
  have ht : ms / 10 ≤ 65000 := by omega
  have ht1 : 1 ≤ ms / 10 := by omega
  obtain ⟨t, hte⟩ : ∃ t, ms / 10 = t := ⟨_, rfl⟩
  rw [hte] at ht ht1 ⊢
  obtain ⟨f, hf1, hf2, hs, hlt, hall⟩ := wdSearch_full t ht
  have hc : ¬ (ms < 10 ∨ 650000 < ms) := by omega
  have hdm := Nat.div_add_mod (t + f - 1) f
  have hml := Nat.mod_lt (t + f - 1) (show f > 0 by omega)
  obtain ⟨q, hq⟩ : ∃ q, (t + f - 1) / f = q := ⟨_, rfl⟩
  rw [hq] at hs hlt hdm
  have hq1 : 1 ≤ q := by
    rw [← hq]
    exact (Nat.le_div_iff_mul_le (by omega)).2 (by omega)
  refine ⟨f, q, ?_, hf1, hf2, hq1, by omega, by omega, by omega, hall⟩
  simp [watchdogFactors, hc, hte, hs]

/-! The documented values. -/
example : watchdogFactors 10 = some (1, 1) := by decide
example : watchdogFactors 15 = some (1, 1) := by decide
example : watchdogFactors 2550 = some (1, 255) := by decide
example : watchdogFactors 2560 = some (2, 128) := by decide
example : watchdogFactors 650000 = some (255, 255) := by decide +kernel
example : watchdogFactors 9 = none := by decide
example : watchdogFactors 650001 = none := by decide
/-- Non-vacuity of `watchdog_factors_spec`. -/
example : ∃ ms, 10 ≤ ms ∧ ms ≤ 650000 := ⟨2560, by omega, by omega⟩

/-! ## (2) Set_Prm PDU -/

/-- Byte layout of the Set_Prm PDU in plain arithmetic: station-status byte
`0x80 (lock) + 0x20 (sync) + 0x10 (freeze) + 0x08 (watchdog on)`, the two watchdog factors, `min_tsdr`,
the ident number big-endian, the group byte, then the user parameters. -/
theorem setPrmPdu_spec (fp : FdlParams) (o : Options) (up : Bytes) (hid : o.ident < 65536) :
    (setPrmPdu fp o up).length = 7 + up.length ∧ (setPrmPdu fp o up).drop 7 = up ∧
    ((setPrmPdu fp o up).getD 0 0).toNat =
      128 + (if o.sync then 32 else 0) + (if o.freeze then 16 else 0) +
        (if fp.watchdog.isSome then 8 else 0) ∧
    (setPrmPdu fp o up).getD 1 0 = (match fp.watchdog with | some (f1, _) => f1 | none => 0) ∧
    (setPrmPdu fp o up).getD 2 0 = (match fp.watchdog with | some (_, f2) => f2 | none => 0) ∧
    (setPrmPdu fp o up).getD 3 0 = fp.minTsdr ∧
    ((setPrmPdu fp o up).getD 4 0).toNat * 256 + ((setPrmPdu fp o up).getD 5 0).toNat = o.ident ∧
    (setPrmPdu fp o up).getD 6 0 = o.groups := by
  have e1 : (UInt8.ofNat (o.ident / 256)).toNat = o.ident / 256 := ofNat_toNat_le _ (by omega)
  have e2 : (UInt8.ofNat (o.ident % 256)).toNat = o.ident % 256 := ofNat_toNat_le _ (by omega)
  refine ⟨?_, ?_, ?_, ?_, ?_, ?_, ?_, ?_⟩
  · simp [setPrmPdu]; omega
  · simp [setPrmPdu]
  · obtain ⟨ident, sync, freeze, groups, userPrm, config⟩ := o
    obtain ⟨a, s, m, ts, wd⟩ := fp
    cases sync <;> cases freeze <;> cases wd <;> simp [setPrmPdu] <;> decide
  · obtain ⟨a, s, m, ts, wd⟩ := fp
    rcases wd with _ | ⟨f1, f2⟩ <;> rfl
  · obtain ⟨a, s, m, ts, wd⟩ := fp
    rcases wd with _ | ⟨f1, f2⟩ <;> rfl
  · simp [setPrmPdu]
  · simp only [setPrmPdu, List.cons_append, List.getD_cons_succ, List.getD_cons_zero, e1, e2]
    omega
  · simp [setPrmPdu]

/-- Non-vacuity of `setPrmPdu_spec`, and a worked example. -/
example : (⟨0x1234, true, false, 3, some [9, 9], none⟩ : Options).ident < 65536 := by decide
example : setPrmPdu ⟨2, 100, 1, 11, some (2, 128)⟩ ⟨0x1234, true, false, 3, none, none⟩ [9, 9]
    = [0xA8, 2, 128, 11, 0x12, 0x34, 3, 9, 9] := by decide

/-! ## (4) The four request headers -/

section Headers
variable (fp : FdlParams) (p : Peripheral)

@[simp] theorem diagHeader_da : (p.diagHeader fp).da = p.address := rfl
@[simp] theorem diagHeader_sa : (p.diagHeader fp).sa = fp.address := rfl
/-- Slave_Diag: DSAP 60, SSAP 62. -/
@[simp] theorem diagHeader_dsap : (p.diagHeader fp).dsap = some 60 := rfl
@[simp] theorem diagHeader_ssap : (p.diagHeader fp).ssap = some 62 := rfl
@[simp] theorem diagHeader_fc : (p.diagHeader fp).fc = .request p.fcb .srdLow := rfl

@[simp] theorem setPrmHeader_da : (p.setPrmHeader fp).da = p.address := rfl
@[simp] theorem setPrmHeader_sa : (p.setPrmHeader fp).sa = fp.address := rfl
/-- Set_Prm: DSAP 61, SSAP 62. -/
@[simp] theorem setPrmHeader_dsap : (p.setPrmHeader fp).dsap = some 61 := rfl
@[simp] theorem setPrmHeader_ssap : (p.setPrmHeader fp).ssap = some 62 := rfl
@[simp] theorem setPrmHeader_fc : (p.setPrmHeader fp).fc = .request p.fcb .srdLow := rfl

@[simp] theorem chkCfgHeader_da : (p.chkCfgHeader fp).da = p.address := rfl
@[simp] theorem chkCfgHeader_sa : (p.chkCfgHeader fp).sa = fp.address := rfl
/-- Chk_Cfg: DSAP 62, SSAP 62. -/
@[simp] theorem chkCfgHeader_dsap : (p.chkCfgHeader fp).dsap = some 62 := rfl
@[simp] theorem chkCfgHeader_ssap : (p.chkCfgHeader fp).ssap = some 62 := rfl
@[simp] theorem chkCfgHeader_fc : (p.chkCfgHeader fp).fc = .request p.fcb .srdLow := rfl

@[simp] theorem dxHeader_da : (p.dxHeader fp).da = p.address := rfl
@[simp] theorem dxHeader_sa : (p.dxHeader fp).sa = fp.address := rfl
/-- Data_Exchange: default SAP, i.e. no SAP bytes at all. -/
@[simp] theorem dxHeader_dsap : (p.dxHeader fp).dsap = none := rfl
@[simp] theorem dxHeader_ssap : (p.dxHeader fp).ssap = none := rfl
@[simp] theorem dxHeader_fc : (p.dxHeader fp).fc = .request p.fcb .srdHigh := rfl

/-- Length byte (LE) of the four requests: PDU length + 2 SAP bytes + DA/SA/FC, or + 0 SAP bytes for
data exchange. -/
theorem diagHeader_lengthByte (n : Nat) : (p.diagHeader fp).lengthByte n = n + 5 := rfl
theorem setPrmHeader_lengthByte (n : Nat) : (p.setPrmHeader fp).lengthByte n = n + 5 := rfl
theorem chkCfgHeader_lengthByte (n : Nat) : (p.chkCfgHeader fp).lengthByte n = n + 5 := rfl
theorem dxHeader_lengthByte (n : Nat) : (p.dxHeader fp).lengthByte n = n + 3 := rfl

end Headers

/-- The data-exchange PDU always has the length of the output process image. -/
@[simp] theorem dxPdu_length (op : OpState) (q : Bytes) : (dxPdu op q).length = q.length := by
  unfold dxPdu
  split <;> simp

/-! ## (3) What `transmit` puts on the wire -/

/-- The static side conditions under which `transmit_telegram` cannot hit a panic site: retry counter
within the (byte-sized) limit, both addresses are 7-bit station addresses, and the three buffers fit
a 249-byte length field (`7 + 237 + 2 + 3 = 249`, `244 + 2 + 3 = 249`, `244 + 0 + 3 = 247`). -/
def Peripheral.Sendable (fp : FdlParams) (p : Peripheral) : Prop :=
  p.retry ≤ fp.maxRetry ∧ fp.maxRetry ≤ 254 ∧ p.address < 128 ∧ fp.address < 128 ∧
  (∀ up, p.opts.userPrm = some up → up.length ≤ 237) ∧
  (∀ c, p.opts.config = some c → c.length ≤ 244) ∧ p.piQ.length ≤ 244

/-- `sent`: if the length byte fits and the retry counter does not overflow its `u8`, the telegram is
sent and the retry counter incremented. -/
theorem sent_ok (p : Peripheral) (h : Header) (pdu : Bytes)
    (hl : h.lengthByte pdu.length ≤ 249) (hr : p.retry + 1 ≤ 255) :
    p.sent h pdu = .send { p with retry := p.retry + 1 } h pdu := by
  have hs : Header.serialize h pdu 256 = .ok (frameSpec h pdu) := serialize_ok h pdu hl
  have hr' : ¬ (p.retry + 1 > 255) := by omega
  simp only [Peripheral.sent, hs, hr', if_false]

/-- The bytes of a sent telegram (C09): `serialize` produces exactly the frame layout `frameSpec`, and
the decoder reads the identical telegram back from it, whatever follows in the buffer. -/
theorem wire_of_send (h : Header) (pdu rest : Bytes)
    (hda : h.da < 128) (hsa : h.sa < 128) (hl : h.lengthByte pdu.length ≤ 249) :
    h.serialize pdu = .ok (frameSpec h pdu) ∧
    deserialize (frameSpec h pdu ++ rest) = .accept (.data h pdu) (frameSpec h pdu).length :=
  ⟨serialize_ok h pdu hl, decode_frame h pdu rest hda hsa hl⟩

section Transmit
variable (fp : FdlParams) (op : OpState) (p : Peripheral)

/-- Retry limit exceeded (any state): nothing is sent, the peripheral is declared offline, FCB and
retry counter are reset.  (Needs no `Sendable`; in fact it contradicts its first conjunct.) -/
theorem transmit_retry_exceeded (hop : op ≠ .stop) (hr : fp.maxRetry < p.retry) :
    p.transmit fp op =
      .decline { p with state := .offline, fcb := .first, retry := 0 } (some .offline) := by
  simp only [Peripheral.transmit, hop, if_false, gt_iff_lt, hr, if_true, Peripheral.declined]

/-- Offline, first attempt: a Slave_Diag request with empty PDU. -/
theorem transmit_offline_first (hop : op ≠ .stop) (hS : p.Sendable fp)
    (hst : p.state = .offline) (hr : p.retry = 0) :
    p.transmit fp op = .send { p with retry := 1 } (p.diagHeader fp) [] := by
  obtain ⟨address, state, retry, fcb, piI, piQ, diag, dn, dif, opts⟩ := p
  simp only [Peripheral.Sendable] at hS hst hr
  obtain ⟨h1, h2, -⟩ := hS
  subst hst hr
  have hn : ¬ (0 > fp.maxRetry) := by omega
  simp only [Peripheral.transmit, hop, if_false, hn, if_true]
  rw [sent_ok _ _ _ (by rw [diagHeader_lengthByte]; simp) (by simp)]

/-- Offline, after the one attempt: decline (other stations get the bus), counter reset. -/
theorem transmit_offline_retry (hop : op ≠ .stop) (hS : p.Sendable fp)
    (hst : p.state = .offline) (hr : p.retry ≠ 0) :
    p.transmit fp op = .decline { p with retry := 0 } none := by
  obtain ⟨address, state, retry, fcb, piI, piQ, diag, dn, dif, opts⟩ := p
  simp only [Peripheral.Sendable] at hS hst hr
  obtain ⟨h1, h2, -⟩ := hS
  subst hst
  have hn : ¬ (retry > fp.maxRetry) := by omega
  simp only [Peripheral.transmit, hop, if_false, hn, hr, Peripheral.declined]

/-- ValidateConfig: a Slave_Diag request with empty PDU. -/
theorem transmit_validateConfig (hop : op ≠ .stop) (hS : p.Sendable fp)
    (hst : p.state = .validateConfig) :
    p.transmit fp op = .send { p with retry := p.retry + 1 } (p.diagHeader fp) [] := by
  obtain ⟨address, state, retry, fcb, piI, piQ, diag, dn, dif, opts⟩ := p
  simp only [Peripheral.Sendable] at hS hst
  obtain ⟨h1, h2, -⟩ := hS
  subst hst
  have hn : ¬ (retry > fp.maxRetry) := by omega
  simp only [Peripheral.transmit, hop, if_false, hn]
  rw [sent_ok _ _ _ (by rw [diagHeader_lengthByte]; simp) (by simp only; omega)]

/-- WaitForParam with user parameters: the Set_Prm request (PDU layout: `setPrmPdu_spec`). -/
theorem transmit_waitForParam (hop : op ≠ .stop) (hS : p.Sendable fp)
    (hst : p.state = .waitForParam) (up : Bytes) (hup : p.opts.userPrm = some up) :
    p.transmit fp op =
      .send { p with retry := p.retry + 1 } (p.setPrmHeader fp) (setPrmPdu fp p.opts up) := by
  obtain ⟨address, state, retry, fcb, piI, piQ, diag, dn, dif, opts⟩ := p
  simp only [Peripheral.Sendable] at hS hst hup
  obtain ⟨h1, h2, -, -, h5, -⟩ := hS
  subst hst
  have hn : ¬ (retry > fp.maxRetry) := by omega
  have hlen : (setPrmPdu fp opts up).length = 7 + up.length := by simp [setPrmPdu]; omega
  have hu := h5 up hup
  simp only [Peripheral.transmit, hop, if_false, hn, hup]
  rw [sent_ok _ _ _ (by rw [setPrmHeader_lengthByte, hlen]; omega) (by simp only; omega)]

/-- WaitForParam without user parameters: decline. -/
theorem transmit_waitForParam_none (hop : op ≠ .stop) (hS : p.Sendable fp)
    (hst : p.state = .waitForParam) (hup : p.opts.userPrm = none) :
    p.transmit fp op = .decline { p with retry := 0 } none := by
  obtain ⟨address, state, retry, fcb, piI, piQ, diag, dn, dif, opts⟩ := p
  simp only [Peripheral.Sendable] at hS hst hup
  obtain ⟨h1, h2, -⟩ := hS
  subst hst
  have hn : ¬ (retry > fp.maxRetry) := by omega
  simp only [Peripheral.transmit, hop, if_false, hn, hup, Peripheral.declined]

/-- WaitForConfig with a configuration: the Chk_Cfg request carrying it verbatim. -/
theorem transmit_waitForConfig (hop : op ≠ .stop) (hS : p.Sendable fp)
    (hst : p.state = .waitForConfig) (cfg : Bytes) (hc : p.opts.config = some cfg) :
    p.transmit fp op = .send { p with retry := p.retry + 1 } (p.chkCfgHeader fp) cfg := by
  obtain ⟨address, state, retry, fcb, piI, piQ, diag, dn, dif, opts⟩ := p
  simp only [Peripheral.Sendable] at hS hst hc
  obtain ⟨h1, h2, -, -, -, h6, -⟩ := hS
  subst hst
  have hn : ¬ (retry > fp.maxRetry) := by omega
  have hu := h6 cfg hc
  simp only [Peripheral.transmit, hop, if_false, hn, hc]
  rw [sent_ok _ _ _ (by rw [chkCfgHeader_lengthByte]; omega) (by simp only; omega)]

/-- WaitForConfig without a configuration: decline. -/
theorem transmit_waitForConfig_none (hop : op ≠ .stop) (hS : p.Sendable fp)
    (hst : p.state = .waitForConfig) (hc : p.opts.config = none) :
    p.transmit fp op = .decline { p with retry := 0 } none := by
  obtain ⟨address, state, retry, fcb, piI, piQ, diag, dn, dif, opts⟩ := p
  simp only [Peripheral.Sendable] at hS hst hc
  obtain ⟨h1, h2, -⟩ := hS
  subst hst
  have hn : ¬ (retry > fp.maxRetry) := by omega
  simp only [Peripheral.transmit, hop, if_false, hn, hc, Peripheral.declined]

/-- PreDataExchange / DataExchange: the service is decided anew only for a new request
(`retry_count == 0`: `diag_in_flight := diag_needed`), a retransmission repeats the service in flight
(`serviceIsDiag`); then a Slave_Diag request, or the data-exchange request with `pi_q` (Operate) or as
many zero bytes (Clear). -/
theorem transmit_dataExchange (hop : op ≠ .stop) (hS : p.Sendable fp)
    (hst : p.state = .preDataExchange ∨ p.state = .dataExchange) :
    p.transmit fp op =
      (let p1 : Peripheral := { p with diagInFlight := p.serviceIsDiag }
       if p.serviceIsDiag then .send { p1 with retry := p.retry + 1 } (p1.diagHeader fp) []
       else .send { p1 with retry := p.retry + 1 } (p1.dxHeader fp) (dxPdu op p.piQ)) := by
  obtain ⟨h1, h2, -, -, -, -, h7⟩ := hS
  have hn : ¬ (p.retry > fp.maxRetry) := by omega
  have hq : (dxPdu op p.piQ).length ≤ 244 := by rw [dxPdu_length]; exact h7
  rcases hst with hst | hst <;>
    (unfold Peripheral.transmit
     simp only [hop, if_false, hn, hst]
     cases hsd : p.serviceIsDiag with
     | true =>
       simp only [if_true]
       rw [sent_ok _ _ _ (by rw [diagHeader_lengthByte]; simp) (by simp only; omega)]
     | false =>
       simp only [Bool.false_eq_true, if_false]
       rw [sent_ok _ _ _ (by rw [dxHeader_lengthByte]; omega) (by simp only; omega)])

/-- Whatever `transmit` sends under `Sendable` is addressed from the master to this peripheral, has a
length byte of at most 249, and the retry counter went up by one. -/
theorem transmit_send_inv (hop : op ≠ .stop) (hS : p.Sendable fp)
    (p' : Peripheral) (h : Header) (pdu : Bytes) (ht : p.transmit fp op = .send p' h pdu) :
    h.da = p.address ∧ h.sa = fp.address ∧ h.lengthByte pdu.length ≤ 249 ∧
      p'.retry = p.retry + 1 := by
  have hS' := hS
  obtain ⟨h1, h2, -, -, h5, h6, h7⟩ := hS'
  cases hst : p.state with
  | offline =>
    by_cases hr : p.retry = 0
    · rw [transmit_offline_first fp op p hop hS hst hr] at ht
      cases ht
      exact ⟨rfl, rfl, by rw [diagHeader_lengthByte]; simp, by simp only; omega⟩
    · rw [transmit_offline_retry fp op p hop hS hst hr] at ht
      cases ht
  | validateConfig =>
    rw [transmit_validateConfig fp op p hop hS hst] at ht
    cases ht
    exact ⟨rfl, rfl, by rw [diagHeader_lengthByte]; simp, rfl⟩
  | waitForParam =>
    cases hup : p.opts.userPrm with
    | none =>
      rw [transmit_waitForParam_none fp op p hop hS hst hup] at ht
      cases ht
    | some up =>
      rw [transmit_waitForParam fp op p hop hS hst up hup] at ht
      cases ht
      have hlen : (setPrmPdu fp p.opts up).length = 7 + up.length := by simp [setPrmPdu]; omega
      have hu := h5 up hup
      exact ⟨rfl, rfl, by rw [setPrmHeader_lengthByte, hlen]; omega, rfl⟩
  | waitForConfig =>
    cases hc : p.opts.config with
    | none =>
      rw [transmit_waitForConfig_none fp op p hop hS hst hc] at ht
      cases ht
    | some cfg =>
      rw [transmit_waitForConfig fp op p hop hS hst cfg hc] at ht
      cases ht
      have hu := h6 _ hc
      exact ⟨rfl, rfl, by rw [chkCfgHeader_lengthByte]; omega, rfl⟩
  | preDataExchange =>
    rw [transmit_dataExchange fp op p hop hS (Or.inl hst)] at ht
    simp only at ht
    split at ht <;> cases ht
    · exact ⟨rfl, rfl, by rw [diagHeader_lengthByte]; simp, rfl⟩
    · exact ⟨rfl, rfl, by rw [dxHeader_lengthByte, dxPdu_length]; omega, rfl⟩
  | dataExchange =>
    rw [transmit_dataExchange fp op p hop hS (Or.inr hst)] at ht
    simp only at ht
    split at ht <;> cases ht
    · exact ⟨rfl, rfl, by rw [diagHeader_lengthByte]; simp, rfl⟩
    · exact ⟨rfl, rfl, by rw [dxHeader_lengthByte, dxPdu_length]; omega, rfl⟩

/-- Under `Sendable` and outside Stop, `transmit_telegram` reaches none of its panic sites. -/
theorem transmit_no_panic (hop : op ≠ .stop) (hS : p.Sendable fp) : p.transmit fp op ≠ .panic := by
  intro ht
  cases hst : p.state with
  | offline =>
    by_cases hr : p.retry = 0
    · rw [transmit_offline_first fp op p hop hS hst hr] at ht; cases ht
    · rw [transmit_offline_retry fp op p hop hS hst hr] at ht; cases ht
  | validateConfig =>
    rw [transmit_validateConfig fp op p hop hS hst] at ht; cases ht
  | waitForParam =>
    cases hup : p.opts.userPrm with
    | none => rw [transmit_waitForParam_none fp op p hop hS hst hup] at ht; cases ht
    | some up => rw [transmit_waitForParam fp op p hop hS hst up hup] at ht; cases ht
  | waitForConfig =>
    cases hc : p.opts.config with
    | none => rw [transmit_waitForConfig_none fp op p hop hS hst hc] at ht; cases ht
    | some cfg => rw [transmit_waitForConfig fp op p hop hS hst cfg hc] at ht; cases ht
  | preDataExchange =>
    rw [transmit_dataExchange fp op p hop hS (Or.inl hst)] at ht
    simp only at ht
    split at ht <;> cases ht
  | dataExchange =>
    rw [transmit_dataExchange fp op p hop hS (Or.inr hst)] at ht
    simp only at ht
    split at ht <;> cases ht

/-- End-to-end byte statement: every telegram `transmit` hands to the FDL layer serialises (into the
256-byte transmit buffer) to exactly the PROFIBUS frame `frameSpec h pdu`, and a receiver running the
decoder on those bytes — followed by anything — gets the identical header and PDU back. -/
theorem transmit_wire (hop : op ≠ .stop) (hS : p.Sendable fp)
    (p' : Peripheral) (h : Header) (pdu rest : Bytes) (ht : p.transmit fp op = .send p' h pdu) :
    h.serialize pdu = .ok (frameSpec h pdu) ∧
    deserialize (frameSpec h pdu ++ rest) = .accept (.data h pdu) (frameSpec h pdu).length := by
  obtain ⟨hda, hsa, hl, -⟩ := transmit_send_inv fp op p hop hS p' h pdu ht
  obtain ⟨-, -, ha, hf, -⟩ := hS
  exact wire_of_send h pdu rest (by rw [hda]; exact ha) (by rw [hsa]; exact hf) hl

end Transmit

/-! ## Non-vacuity: a concrete master / peripheral satisfying every hypothesis used above -/

/-- Master at address 2, retry limit 1, `min_tsdr` 11, watchdog 2.56 s. -/
def exFp : FdlParams := ⟨2, 100, 1, 11, watchdogFactors 2560⟩
/-- Ident 0x1234, sync on, three user-parameter bytes, two configuration bytes. -/
def exOpts : Options := ⟨0x1234, true, false, 3, some [1, 2, 3], some [0x11, 0x21]⟩
/-- Peripheral 7 with a 2-byte input and 3-byte output image, put in state `st` with retry count `r`
and `diag_needed = dn`. -/
def exP (st : PState) (r : Nat) (dn : Bool) : Peripheral :=
  { Peripheral.new 7 exOpts [0, 0] [5, 6, 7] 16 with state := st, retry := r, diagNeeded := dn }

theorem exP_sendable (st : PState) (r : Nat) (dn : Bool) (hr : r ≤ 1) :
    (exP st r dn).Sendable exFp := by
  refine ⟨hr, by decide, ?_, by decide, ?_, ?_, ?_⟩
  · show (7 : UInt8) < 128; decide
  · intro up h; cases h; decide
  · intro c h; cases h; decide
  · show [(5 : UInt8), 6, 7].length ≤ 244; decide

/-- `sent_ok` / `wire_of_send`: hypotheses hold for the Set_Prm telegram of the example. -/
example : ((exP .waitForParam 0 false).setPrmHeader exFp).lengthByte
      (setPrmPdu exFp exOpts [1, 2, 3]).length ≤ 249 ∧ (exP .waitForParam 0 false).retry + 1 ≤ 255 ∧
    ((exP .waitForParam 0 false).setPrmHeader exFp).da < 128 ∧
    ((exP .waitForParam 0 false).setPrmHeader exFp).sa < 128 := by decide

/-- The per-state theorems instantiated (each hypothesis discharged by evaluation). -/
example : (exP .offline 0 false).transmit exFp .operate =
    .send (exP .offline 1 false) ((exP .offline 0 false).diagHeader exFp) [] :=
  transmit_offline_first _ _ _ (by decide) (exP_sendable _ _ _ (by decide)) rfl rfl
example : (exP .offline 1 false).transmit exFp .clear = .decline (exP .offline 0 false) none :=
  transmit_offline_retry _ _ _ (by decide) (exP_sendable _ _ _ (by decide)) rfl (by decide)
example : (exP .validateConfig 1 false).transmit exFp .operate =
    .send (exP .validateConfig 2 false) ((exP .validateConfig 1 false).diagHeader exFp) [] :=
  transmit_validateConfig _ _ _ (by decide) (exP_sendable _ _ _ (by decide)) rfl
example : (exP .waitForParam 0 false).transmit exFp .operate =
    .send (exP .waitForParam 1 false) ((exP .waitForParam 0 false).setPrmHeader exFp)
      [0xA8, 2, 128, 11, 0x12, 0x34, 3, 1, 2, 3] :=
  transmit_waitForParam _ _ _ (by decide) (exP_sendable _ _ _ (by decide)) rfl _ rfl
example : (exP .waitForConfig 0 false).transmit exFp .operate =
    .send (exP .waitForConfig 1 false) ((exP .waitForConfig 0 false).chkCfgHeader exFp)
      [0x11, 0x21] :=
  transmit_waitForConfig _ _ _ (by decide) (exP_sendable _ _ _ (by decide)) rfl _ rfl
example : ({ exP .waitForParam 0 false with opts := { exOpts with userPrm := none } } : Peripheral).transmit
      exFp .operate =
    .decline { exP .waitForParam 0 false with opts := { exOpts with userPrm := none } } none :=
  transmit_waitForParam_none _ _ _ (by decide)
    ⟨by decide, by decide, by decide, by decide, (by intro up h; cases h),
      (by intro c h; cases h; decide), by decide⟩ rfl rfl
example : ({ exP .waitForConfig 0 false with opts := { exOpts with config := none } } : Peripheral).transmit
      exFp .operate =
    .decline { exP .waitForConfig 0 false with opts := { exOpts with config := none } } none :=
  transmit_waitForConfig_none _ _ _ (by decide)
    ⟨by decide, by decide, by decide, by decide, (by intro up h; cases h; decide),
      (by intro c h; cases h), by decide⟩ rfl rfl
example : (exP .dataExchange 0 false).transmit exFp .operate =
    .send (exP .dataExchange 1 false) ((exP .dataExchange 0 false).dxHeader exFp) [5, 6, 7] :=
  transmit_dataExchange _ _ _ (by decide) (exP_sendable _ _ _ (by decide)) (Or.inr rfl)
example : (exP .preDataExchange 0 false).transmit exFp .clear =
    .send (exP .preDataExchange 1 false) ((exP .preDataExchange 0 false).dxHeader exFp) [0, 0, 0] :=
  transmit_dataExchange _ _ _ (by decide) (exP_sendable _ _ _ (by decide)) (Or.inl rfl)
example : (exP .dataExchange 0 true).transmit exFp .operate =
    .send { exP .dataExchange 1 true with diagInFlight := true }
      ((exP .dataExchange 0 true).diagHeader exFp) [] :=
  transmit_dataExchange _ _ _ (by decide) (exP_sendable _ _ _ (by decide)) (Or.inr rfl)
example : (exP .dataExchange 2 false).transmit exFp .operate =
    .decline { exP .offline 0 false with fcb := .first } (some .offline) :=
  transmit_retry_exceeded _ _ _ (by decide) (by decide)

/-- The bytes of the example's data-exchange telegram on the wire (SD2 LE LEr SD2 DA SA FC PDU FCS ED). -/
example : frameSpec ((exP .dataExchange 0 false).dxHeader exFp) [5, 6, 7] =
    [0x68, 6, 6, 0x68, 7, 2, 0x6D, 5, 6, 7, 0x88, 0x16] := by decide
/-- … and `transmit_wire` applies to it. -/
example (rest : Bytes) :
    deserialize ([0x68, 6, 6, 0x68, 7, 2, 0x6D, 5, 6, 7, 0x88, 0x16] ++ rest) =
      .accept (.data ((exP .dataExchange 0 false).dxHeader exFp) [5, 6, 7]) 12 :=
  (transmit_wire exFp .operate (exP .dataExchange 0 false) (by decide)
    (exP_sendable _ _ _ (by decide)) (exP .dataExchange 1 false) _ [5, 6, 7] rest
    (transmit_dataExchange _ _ _ (by decide) (exP_sendable _ _ _ (by decide)) (Or.inr rfl))).2

/-- `transmit_no_panic` / `transmit_send_inv` on the example (hypotheses: `exP_sendable`). -/
example : (exP .waitForParam 1 false).transmit exFp .clear ≠ .panic :=
  transmit_no_panic _ _ _ (by decide) (exP_sendable _ _ _ (by decide))
example : ∃ p' h pdu, (exP .waitForConfig 1 false).transmit exFp .operate = .send p' h pdu ∧
    h.da = 7 ∧ h.sa = 2 ∧ h.lengthByte pdu.length = 7 ∧ p'.retry = 2 :=
  ⟨_, _, _, transmit_waitForConfig _ _ _ (by decide) (exP_sendable _ _ _ (by decide)) rfl _ rfl,
    rfl, rfl, rfl, rfl⟩

end PV.Dp
