/-
`interp (astOf d) = ok d`: assembly of the stage lemmas.
-/
import ProfiVerif.Lemmas.GsdFaithful4

namespace PV.Gsd
open Res

/-- The descriptions the canonical printer covers (= the image of the parser on well-formed files,
up to the finitely many `(index)`/integer-width bounds and the string-literal condition `Clean`). -/
structure Desc.WF (d : Desc) : Prop where
  scalars : ScalarsOk d
  /-- a compact station has exactly one module slot (the parser forces `max_modules = 1`) -/
  compact : d.modularStation = false → d.maxModules = 1
  defsCount : (allDefs d).length ≤ 65536
  prm : d.userPrmData.WF
  /-- legacy `User_Prm_Data` shape (no references, all offsets 0, data fits the declared length) or
  `Ext_User_Prm_Data_*` shape (the length field stays 0) -/
  prmShape : if isLegacy d.userPrmData then
      (d.userPrmData.length = 0 ∨ ∀ c ∈ d.userPrmData.dataConst, c.2.length ≤ d.userPrmData.length)
    else d.userPrmData.length = 0
  modules : ∀ m ∈ d.availableModules, m.WF
  slots : ∀ s ∈ d.slots, s.WF d.availableModules
  bits : BitsOk d.diagBits
  notBits : BitsOk d.diagNotBits
  areas : ∀ a ∈ d.diagAreas, a.WF

theorem moduleDefs_wf (mods : List Module) (h : ∀ m ∈ mods, m.WF) : ∀ f ∈ moduleDefs mods, f.WF := by
  intro f hf
  simp only [moduleDefs, List.mem_flatMap, List.mem_map] at hf
  obtain ⟨m, hm, r, hr, rfl⟩ := hf
  exact ((h m hm).prm.refs r hr).2

theorem allDefs_wf (d : Desc) (h : d.WF) : ∀ f ∈ allDefs d, f.WF := by
  intro f hf
  simp only [allDefs, List.mem_append, List.mem_map] at hf
  rcases hf with ⟨r, hr, rfl⟩ | hf
  · exact (h.prm.refs r hr).2
  · exact moduleDefs_wf _ h.modules f hf

/-- Stage 3 in both shapes: afterwards the committed parameter block is `p`. -/
theorem run_userPrm (st : St) (p : UserPrmData) (hp : p.WF)
    (hshape : if isLegacy p then (p.length = 0 ∨ ∀ c ∈ p.dataConst, c.2.length ≤ p.length) else p.length = 0)
    (hl : st.legacy = some {}) (hu : st.gsd.userPrmData = {})
    (hcount : p.dataRef.length ≤ 65536)
    (hget : ∀ i, (hi : i < p.dataRef.length) → assocGet (0 + i) st.defs = some p.dataRef[i].2) :
    ∃ u l, run st (userPrmStmts p) = .ok { st with gsd := { st.gsd with userPrmData := u }, legacy := l } ∧
      (match l with | some prm => prm | none => u) = p := by
  obtain ⟨length, dataConst, dataRef⟩ := p
  by_cases hleg : isLegacy ⟨length, dataConst, dataRef⟩ = true
  · rw [if_pos hleg] at hshape
    simp only [isLegacy, Bool.and_eq_true, List.isEmpty_iff, List.all_eq_true, beq_iff_eq] at hleg
    obtain ⟨hrefs, hoff⟩ := hleg
    subst hrefs
    refine ⟨st.gsd.userPrmData, some ⟨length, dataConst, []⟩, ?_, rfl⟩
    have hisl : isLegacy ⟨length, dataConst, []⟩ = true := by
      simp only [isLegacy, Bool.and_eq_true, List.isEmpty_iff, List.all_eq_true, beq_iff_eq]
      exact ⟨trivial, hoff⟩
    simp only [userPrmStmts, hisl, if_true]
    rw [run_cons_ok (doStmt_userPrmLen st {} length hl hp.length (by simp [constMaxLen]))]
    rw [run_legacyDatas _ { length := length } dataConst (by rfl) (fun c hc => (hp.consts c hc).2) hshape]
    have hmap : dataConst.map (fun c => ((0 : Nat), c.2)) = dataConst := by
      have : ∀ c ∈ dataConst, ((0 : Nat), c.2) = c := fun c hc => by
        have := hoff c hc
        obtain ⟨o, v⟩ := c
        simp only at this
        rw [this]
      rw [List.map_congr_left this, List.map_id']
    obtain ⟨gsd, _, _, _, _, _, _⟩ := st
    cases gsd
    simp [hmap]
  · have hisl : isLegacy ⟨length, dataConst, dataRef⟩ = false := by simpa using hleg
    rw [if_neg hleg] at hshape
    simp only at hshape
    subst hshape
    refine ⟨⟨0, dataConst, dataRef⟩, none, ?_, rfl⟩
    simp only [userPrmStmts, hisl, Bool.false_eq_true, if_false, List.map_append]
    rw [run_cons_ok (doStmt_maxUserPrmLen st 237)]
    rw [run_append_ok (run_topConsts _ dataConst (by rfl) hp.consts)]
    rw [run_topRefs (withTopPrm { st with legacy := none } dataConst []) 0 dataRef (by rfl)
      (fun r hr => (hp.refs r hr).1) (by simp at hcount ⊢; omega) hget]
    obtain ⟨gsd, _, _, _, _, _, _⟩ := st
    obtain ⟨_, _, _, _, _, _, _, _, _, _, _, _, _, _, _, _, _, _, _, _, _, _, _, _, prm, _, _, _⟩ := gsd
    simp only at hu
    subst hu
    simp [withTopPrm]

theorem run_slotsStmt (st : St) (ss : List Slot) (h : ∀ s ∈ ss, s.WF st.gsd.availableModules) :
    ∃ ws, run st [Stmt.slots (ss.map (slotStmt st.gsd.availableModules))] = .ok (withSlots st ss ws) := by
  obtain ⟨ws, hw⟩ := doSlots_ok st ss h
  exact ⟨ws, by simp [run, doStmt, hw]⟩

theorem finish_ok (st : St) (h1 : st.maxModulesSeen = true)
    (hc : (commitLegacy st).modularStation = false → (commitLegacy st).maxModules = 1) :
    ∃ ws, finish st = .ok (commitLegacy st, ws) := by
  by_cases hm : (commitLegacy st).modularStation = true
  · exact ⟨st.warnings, by simp [finish, h1, defaultMaxModules, hm]⟩
  · have hm' : (commitLegacy st).modularStation = false := by simpa using hm
    have h1' := hc hm'
    have hfin : finish st = .ok ({ commitLegacy st with maxModules := 1 },
        st.warnings ++ (if (commitLegacy st).availableModules.length ≠ 1 then [Warn.compactModules] else [])) := by
      simp [finish, h1, defaultMaxModules, hm', compactStation, h1']
    have heq : ({ commitLegacy st with maxModules := 1 } : Desc) = commitLegacy st := by
      generalize commitLegacy st = g at *
      cases g
      simp_all
    exact ⟨_, by rw [hfin, heq]⟩

/-- **Faithfulness of the interpretation**: the canonical AST of a well-formed description is
interpreted back to exactly that description (warnings aside). -/
theorem interp_astOf (d : Desc) (h : d.WF) : ∃ ws, interp (astOf d) = .ok (d, ws) := by
  have h1 := run_scalars d h.scalars
  obtain ⟨s2, h2, dd⟩ := run_defsFrom { gsd := scalarsOf d, maxModulesSeen := true, modularSeen := true } 0
    (allDefs d) (allDefs_wf d h) (by have := h.defsCount; omega)
  obtain ⟨gsd2, texts2, defs2, legacy2, ms2, mod2, w2⟩ := s2
  have hg : gsd2 = scalarsOf d := dd.gsd
  have hl : legacy2 = some {} := dd.legacy
  have hms : ms2 = true := dd.maxSeen
  have hmod : mod2 = true := dd.modSeen
  have hw : w2 = [] := dd.warnings
  subst hg hl hms hmod hw
  have hfound : ∀ i, (hi : i < (allDefs d).length) → assocGet (0 + i) defs2 = some (allDefs d)[i] := dd.found
  have hlenTop : d.userPrmData.dataRef.length ≤ (allDefs d).length := by simp [allDefs]
  -- stage 3
  obtain ⟨u, l, h3, hul⟩ := run_userPrm ⟨scalarsOf d, texts2, defs2, some {}, true, true, []⟩ d.userPrmData h.prm h.prmShape
    rfl rfl (by have := h.defsCount; omega) (fun i hi => by
      have := hfound i (by omega)
      rw [this]
      simp [allDefs, List.getElem_append_left, hi])
  -- stage 4
  have h4 := run_modules ⟨{ scalarsOf d with userPrmData := u }, texts2, defs2, l, true, true, []⟩
    d.userPrmData.dataRef.length d.availableModules h.modules
    (by have := h.defsCount; simp only [allDefs, List.length_append, List.length_map] at this; omega)
    (fun i hi => by
      have := hfound (d.userPrmData.dataRef.length + i) (by simp [allDefs]; omega)
      simp only [Nat.zero_add] at this
      rw [this]
      simp [allDefs, List.getElem_append_right])
  -- stage 5
  obtain ⟨ws5, h5⟩ := run_slotsStmt
    ⟨{ scalarsOf d with userPrmData := u, availableModules := d.availableModules }, texts2, defs2, l, true, true, []⟩
    d.slots h.slots
  -- stage 6
  have h6 := run_bitStmts false _ _ bitKeys
    ⟨{ scalarsOf d with userPrmData := u, availableModules := d.availableModules, slots := d.slots },
      texts2, defs2, l, true, true, ws5⟩ d.diagBits (by simpa [getBits, scalarsOf] using h.bits.nodup) h.bits.wf
  have h7 := run_bitStmts true _ _ notBitKeys
    ⟨{ scalarsOf d with userPrmData := u, availableModules := d.availableModules, slots := d.slots, diagBits := d.diagBits },
      texts2, defs2, l, true, true, ws5⟩ d.diagNotBits (by simpa [getBits, scalarsOf] using h.notBits.nodup) h.notBits.wf
  have h8 := run_areas
    ⟨{ scalarsOf d with userPrmData := u, availableModules := d.availableModules, slots := d.slots, diagBits := d.diagBits, diagNotBits := d.diagNotBits }, texts2, defs2, l, true, true, ws5⟩ d.diagAreas h.areas
  -- the whole statement list
  have hrun : run {} (astOf d) = .ok
      ⟨{ scalarsOf d with userPrmData := u, availableModules := d.availableModules, slots := d.slots, diagBits := d.diagBits, diagNotBits := d.diagNotBits, diagAreas := d.diagAreas }, texts2, defs2, l, true, true, ws5⟩ := by
    unfold astOf
    simp only [List.append_assoc]
    rw [run_append_ok h1, run_append_ok h2, run_append_ok h3]
    rw [run_append_ok (by simpa [scalarsOf] using h4)]
    rw [run_append_ok (by simpa [scalarsOf, withSlots] using h5)]
    rw [run_append_ok (by simpa [scalarsOf, setBits, getBits] using h6)]
    rw [run_append_ok (by simpa [scalarsOf, setBits, getBits] using h7)]
    simpa [scalarsOf] using h8
  unfold interp
  rw [hrun]
  simp only [bind_ok]
  have hcommit : commitLegacy ⟨{ scalarsOf d with userPrmData := u, availableModules := d.availableModules, slots := d.slots, diagBits := d.diagBits, diagNotBits := d.diagNotBits, diagAreas := d.diagAreas }, texts2, defs2, l, true, true, ws5⟩ = d := by
    cases l with
    | none =>
      simp only at hul
      subst hul
      cases d
      simp [commitLegacy, scalarsOf]
    | some prm =>
      simp only at hul
      subst hul
      cases d
      simp [commitLegacy, scalarsOf]
  obtain ⟨ws, hfin⟩ := finish_ok _ (rfl : (St.mk _ texts2 defs2 l true true ws5).maxModulesSeen = true)
    (by rw [hcommit]; exact h.compact)
  rw [hcommit] at hfin
  exact ⟨ws, hfin⟩

end PV.Gsd
