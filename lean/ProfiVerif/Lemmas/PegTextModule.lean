/-
The PEG on canonical text: `Module … EndModule` (name, configuration bytes, optional reference line,
setting lines).
-/
import ProfiVerif.Lemmas.PegTextExt

namespace PV.Gsd.Peg

/-! ### Setting lines inside a block -/

def settingLine (s : Setting) : BlockLine := ⟨settingText s ++ ['\n'], [settingPair s]⟩

def settingLineE : Expr := .seq (.call .setting) (.plus .newline)

theorem settingLine_good (s : Setting) (h : SettingCanon s) : (settingLine s).Good settingLineE where
  starts := by
    obtain ⟨⟨c, w, hkey, hw⟩, _⟩ := h
    exact ⟨c, w ++ (idxText s.index ++ '=' :: valueText s.value) ++ ['\n'], by simp [settingLine, settingText, hkey],
      hw c (List.mem_cons_self ..)⟩
  parses := by
    intro rest p o hrest
    have h1 := setting_ok s h ('\n' :: rest) valStop_lf p o
    have h2 := nls_ok hrest (p + (settingText s).length) (settingPair s :: o)
    rw [mk_pos (show p + (settingText s).length + 1 = p + (settingLine s).text.length by
      simp only [settingLine, List.length_append, List.length_cons, List.length_nil]; omega)] at h2
    have := Ev.seq h1 (sk_lf _ _ _) h2
    simpa only [settingLine, settingLineE, List.append_assoc, List.singleton_append, List.reverse_cons, List.reverse_nil,
      List.nil_append] using this

/-- A line consisting of identifier characters only is not a setting (no `=`). -/
theorem setting_fail_line (c : Char) (w rest : Str) (hw : ∀ d ∈ c :: w, IsIdChar d) (p : Nat) (o : List Pair) :
    Ev false (.call .setting) (mk (c :: w ++ '\n' :: rest) p o) .fail := by
  refine Ev.call_fail (by decide) ?_
  show Ev false (.seq (.call .identifier) (.seq (.opt (.seq (.str ['(']) (.seq (.call .number) (.str [')']))))
    (.seq (.str ['=']) (.call .setting_value)))) _ _
  have hid := identifier_ok c w ('\n' :: rest) p [] hw (show ¬ IsIdChar '\n' by decide)
  refine Ev.seq hid (sk_lf _ _ _) (Ev.seq (Ev.opt_none (Ev.seq_fail (Ev.str_fail
    (matchStr_single_none (show ('\n' : Char) ≠ '(' by decide))))) (sk_lf _ _ _)
    (Ev.seq_fail (Ev.str_fail (matchStr_single_none (show ('\n' : Char) ≠ '=' by decide)))))

theorem settingLine_fail (c : Char) (w rest : Str) (hw : ∀ d ∈ c :: w, IsIdChar d) (p : Nat) (o : List Pair) :
    Ev false settingLineE (mk (c :: w ++ '\n' :: rest) p o) .fail :=
  Ev.seq_fail (setting_fail_line c w rest hw p o)

theorem flatMap_settingLines (ss : List Setting) : (ss.map settingLine).flatMap (·.pairs) = ss.map settingPair := by
  induction ss with
  | nil => rfl
  | cons s ss ih => simp [List.flatMap_cons, settingLine, ih]

/-! ### The reference line -/

/-- Reference numbers are written without sign. -/
def NatCanon (n : NumTok) : Prop := ∃ d ds, n = .dec (d :: ds) ∧ ∀ c ∈ d :: ds, IsDigit c

theorem NatCanon.num {n : NumTok} (h : NatCanon n) : NumCanon n := by
  obtain ⟨d, ds, rfl, hd⟩ := h
  exact ⟨d, ds, .inl rfl, hd⟩

theorem isDigit_idChar {c : Char} (h : IsDigit c) : IsIdChar c := .inl h

def refText : Option NumTok → Str
  | none => []
  | some n => numText n ++ ['\n']

def refPairs : Option NumTok → List Pair
  | none => []
  | some n => [.node .module_reference (numText n ++ ['\n']) [numPair n]]

theorem ref_ok (n : NumTok) (hn : NumCanon n) (rest : Str) (hrest : Starts rest) (p : Nat) (o : List Pair) :
    Ev false (.call .module_reference) (mk (refText (some n) ++ rest) p o)
      (.ok (mk rest (p + (refText (some n)).length) ((refPairs (some n)).reverse ++ o))) := by
  have body : Ev false (ruleDef .module_reference).2 (mk (refText (some n) ++ rest) p [])
      (.ok (mk rest (p + (refText (some n)).length) [numPair n])) := by
    show Ev false (.seq (.call .number) (.plus .newline)) _ _
    have h1 := numCanon_ok hn (tail := '\n' :: rest) numStop_lf p []
    have h2 := nls_ok hrest (p + (numText n).length) [numPair n]
    rw [mk_pos (show p + (numText n).length + 1 = p + (refText (some n)).length by
      simp only [refText, List.length_append, List.length_cons, List.length_nil]; omega)] at h2
    have := Ev.seq h1 (sk_lf _ _ _) h2
    simpa only [refText, List.append_assoc, List.singleton_append] using this
  have := Ev.call_node (q := .module_reference) (ty := .normal) (st := mk (refText (some n) ++ rest) p o) rfl (by decide) body
  simpa only [mk, take_token (numText n ++ ['\n']) rest p, refPairs, refText, List.reverse_cons, List.reverse_nil,
    List.nil_append, List.singleton_append] using this

/-! ### The block -/

def kwModule : Str := ['M', 'o', 'd', 'u', 'l', 'e']
def kwEndModule : Str := ['E', 'n', 'd', 'M', 'o', 'd', 'u', 'l', 'e']

def dataLineE : Expr := .seq (.call .data_area) (.plus .newline)

/-- Everything between the header line and the line break behind `EndModule`. -/
def modMiddleE : Expr :=
  .seq (.star settingLineE) (.seq (.opt (.call .module_reference)) (.seq (.star settingLineE)
    (.seq (.star dataLineE) (.seq (.star settingLineE) (.insens (kwEndModule.map Char.toLower))))))

def modMiddleText (ref : Option NumTok) (ss : List Setting) : Str :=
  refText ref ++ (blockText (ss.map settingLine) ++ kwEndModule)

theorem modMiddle_ok (ref : Option NumTok) (href : ∀ n, ref = some n → NatCanon n) (ss : List Setting)
    (hss : ∀ s ∈ ss, SettingCanon s) (rest : Str) (p : Nat) (o : List Pair) :
    Ev false modMiddleE (mk (modMiddleText ref ss ++ '\n' :: rest) p o)
      (.ok (mk ('\n' :: rest) (p + (modMiddleText ref ss).length)
        (blockOut (ss.map settingLine) ((refPairs ref).reverse ++ o)))) := by
  have hgood : ∀ m ∈ ss.map settingLine, m.Good settingLineE := by
    intro m hm
    obtain ⟨k, hk, rfl⟩ := List.mem_map.mp hm
    exact settingLine_good k (hss k hk)
  have hEw : ∀ d ∈ kwEndModule, IsIdChar d := by decide
  have sE : Starts (kwEndModule ++ '\n' :: rest) := ⟨'E', _, rfl, by decide⟩
  have hend : ∀ p o, Ev false settingLineE (mk (kwEndModule ++ '\n' :: rest) p o) .fail :=
    fun p o => settingLine_fail 'E' ['n', 'd', 'M', 'o', 'd', 'u', 'l', 'e'] rest hEw p o
  have hdata : ∀ p o, Ev false (.star dataLineE) (mk (kwEndModule ++ '\n' :: rest) p o) (.ok (mk (kwEndModule ++ '\n' :: rest) p o)) :=
    fun p o => Ev.star_nil (Ev.seq_fail (block_fail rfl (matchInsens_clash (key := kwEndModule) ('\n' :: rest) (by decide)) p o))
  have skE : ∀ p o, Sk false (mk (kwEndModule ++ '\n' :: rest) p o) (.ok (mk (kwEndModule ++ '\n' :: rest) p o)) :=
    fun p o => sk_none sE.noSkip
  have hnil : ∀ p o, Ev false (.star settingLineE) (mk (kwEndModule ++ '\n' :: rest) p o) (.ok (mk (kwEndModule ++ '\n' :: rest) p o)) :=
    fun p o => Ev.star_nil (hend p o)
  let B := blockText (ss.map settingLine)
  have sB : Starts (B ++ (kwEndModule ++ '\n' :: rest)) := starts_block hgood sE
  have hlines : ∀ p o, Ev false (.star settingLineE) (mk (B ++ (kwEndModule ++ '\n' :: rest)) p o)
      (.ok (mk (kwEndModule ++ '\n' :: rest) (p + B.length) (blockOut (ss.map settingLine) o))) :=
    fun p o => star_block sE hend (ss.map settingLine) p o hgood
  have hendkw : ∀ p o, Ev false (.insens (kwEndModule.map Char.toLower)) (mk (kwEndModule ++ '\n' :: rest) p o)
      (.ok (mk ('\n' :: rest) (p + kwEndModule.length) o)) := fun p o => insens_lit_ok kwEndModule _ p o
  unfold modMiddleE
  cases ref with
  | none =>
    have hopt : Ev false (.opt (.call .module_reference)) (mk (kwEndModule ++ '\n' :: rest) (p + B.length) (blockOut (ss.map settingLine) o))
        (.ok (mk (kwEndModule ++ '\n' :: rest) (p + B.length) (blockOut (ss.map settingLine) o))) := by
      refine Ev.opt_none (Ev.call_fail (by decide) ?_)
      show Ev false (.seq (.call .number) _) _ _
      exact Ev.seq_fail (number_fail _ _ _ (show ¬ IsDigit 'E' ∧ ('E' : Char) ≠ '-' by decide))
    have hk := hendkw (p + B.length) (blockOut (ss.map settingLine) o)
    rw [mk_pos (show p + B.length + kwEndModule.length = p + (modMiddleText none ss).length by
      simp only [modMiddleText, refText, List.length_append, List.nil_append, B]; omega)] at hk
    have := Ev.seq (hlines p o) (skE _ _) (Ev.seq hopt (skE _ _) (Ev.seq (hnil _ _) (skE _ _)
      (Ev.seq (hdata _ _) (skE _ _) (Ev.seq (hnil _ _) (skE _ _) hk))))
    simpa only [modMiddleText, refText, refPairs, List.nil_append, List.append_assoc, List.reverse_nil, B] using this
  | some n =>
    obtain ⟨d, ds, rfl, hd⟩ := href n rfl
    have hn : NumCanon (.dec (d :: ds)) := ⟨d, ds, .inl rfl, hd⟩
    have hw : ∀ c ∈ d :: ds, IsIdChar c := fun c hc => isDigit_idChar (hd c hc)
    have sR : Starts (d :: ds ++ '\n' :: (B ++ (kwEndModule ++ '\n' :: rest))) := ⟨d, _, rfl, hw d (List.mem_cons_self ..)⟩
    have h1 : Ev false (.star settingLineE) (mk (d :: ds ++ '\n' :: (B ++ (kwEndModule ++ '\n' :: rest))) p o)
        (.ok (mk (d :: ds ++ '\n' :: (B ++ (kwEndModule ++ '\n' :: rest))) p o)) :=
      Ev.star_nil (settingLine_fail d ds _ hw p o)
    have h2 := ref_ok (.dec (d :: ds)) hn (B ++ (kwEndModule ++ '\n' :: rest)) sB p o
    have h3 := hlines (p + (refText (some (.dec (d :: ds)))).length) ((refPairs (some (.dec (d :: ds)))).reverse ++ o)
    have hk := hendkw (p + (refText (some (.dec (d :: ds)))).length + B.length)
      (blockOut (ss.map settingLine) ((refPairs (some (.dec (d :: ds)))).reverse ++ o))
    rw [mk_pos (show p + (refText (some (.dec (d :: ds)))).length + B.length + kwEndModule.length =
      p + (modMiddleText (some (.dec (d :: ds))) ss).length by
        simp only [modMiddleText, List.length_append, B]; omega)] at hk
    have h2' : Ev false (.opt (.call .module_reference)) (mk (d :: ds ++ '\n' :: (B ++ (kwEndModule ++ '\n' :: rest))) p o)
        (.ok (mk (B ++ (kwEndModule ++ '\n' :: rest)) (p + (refText (some (.dec (d :: ds)))).length)
          ((refPairs (some (.dec (d :: ds)))).reverse ++ o))) := by
      refine Ev.opt_some ?_
      simpa only [refText, numText, List.append_assoc, List.singleton_append, List.cons_append, List.nil_append] using h2
    have := Ev.seq h1 (sk_none sR.noSkip) (Ev.seq h2' (sk_none sB.noSkip) (Ev.seq h3 (skE _ _)
      (Ev.seq (hdata _ _) (skE _ _) (Ev.seq (hnil _ _) (skE _ _) hk))))
    simpa only [modMiddleText, refText, numText, List.append_assoc, List.singleton_append, List.cons_append, List.nil_append, B] using this

def modText (name : Str) (c : NumTok) (cs : List NumTok) (ref : Option NumTok) (ss : List Setting) : Str :=
  kwModule ++ '=' :: (name ++ ' ' :: (listText c cs ++ '\n' :: modMiddleText ref ss))

def modPair (name : Str) (c : NumTok) (cs : List NumTok) (ref : Option NumTok) (ss : List Setting) : Pair :=
  .node .module (modText name c cs ref ss) (strPair name :: listPair c cs :: (refPairs ref ++ ss.map settingPair))

theorem modMiddle_starts (ref : Option NumTok) (href : ∀ n, ref = some n → NatCanon n) (ss : List Setting)
    (hss : ∀ s ∈ ss, SettingCanon s) (tail : Str) : Starts (modMiddleText ref ss ++ tail) := by
  have hgood : ∀ m ∈ ss.map settingLine, m.Good settingLineE := by
    intro m hm
    obtain ⟨k, hk, rfl⟩ := List.mem_map.mp hm
    exact settingLine_good k (hss k hk)
  have sE : Starts (kwEndModule ++ tail) := ⟨'E', _, rfl, by decide⟩
  cases ref with
  | none => simpa only [modMiddleText, refText, List.nil_append, List.append_assoc] using starts_block hgood sE
  | some n =>
    obtain ⟨d, ds, rfl, hd⟩ := href n rfl
    exact ⟨d, ds ++ '\n' :: (blockText (ss.map settingLine) ++ kwEndModule) ++ tail, by simp [modMiddleText, refText, numText],
      isDigit_idChar (hd d (List.mem_cons_self ..))⟩

theorem module_ok (name : Str) (hname : StrCanon name) (c : NumTok) (cs : List NumTok) (hcfg : ∀ m ∈ c :: cs, NumCanon m)
    (ref : Option NumTok) (href : ∀ n, ref = some n → NatCanon n) (ss : List Setting) (hss : ∀ s ∈ ss, SettingCanon s)
    (rest : Str) (p : Nat) (o : List Pair) :
    Ev false (.call .module) (mk (modText name c cs ref ss ++ '\n' :: rest) p o)
      (.ok (mk ('\n' :: rest) (p + (modText name c cs ref ss).length) (modPair name c cs ref ss :: o))) := by
  have body : Ev false (ruleDef .module).2 (mk (modText name c cs ref ss ++ '\n' :: rest) p [])
      (.ok (mk ('\n' :: rest) (p + (modText name c cs ref ss).length)
        (blockOut (ss.map settingLine) ((refPairs ref).reverse ++ [listPair c cs, strPair name])))) := by
    show Ev false (.seq (.insens (kwModule.map Char.toLower)) (.seq (.str ['=']) (.seq (.call .string_literal)
      (.seq (.call .number_list) (.seq (.plus .newline) modMiddleE))))) _ _
    let M := modMiddleText ref ss ++ '\n' :: rest
    have h1 := insens_lit_ok (a := false) kwModule ('=' :: (name ++ ' ' :: (listText c cs ++ '\n' :: M))) p []
    have h2 : Ev false (.str ['=']) (mk ('=' :: (name ++ ' ' :: (listText c cs ++ '\n' :: M))) (p + kwModule.length) [])
        (.ok (mk (name ++ ' ' :: (listText c cs ++ '\n' :: M)) (p + kwModule.length + 1) [])) :=
      Ev.str_ok (l := ['=']) matchStr_single_some
    have h3 := strCanon_ok hname (' ' :: (listText c cs ++ '\n' :: M)) (p + kwModule.length + 1) []
    have hc0 := hcfg c (List.mem_cons_self ..)
    have s3 := sk_blank (rest := listText c cs ++ '\n' :: M) (p := p + kwModule.length + 1 + name.length) (o := [strPair name])
      (by simpa only [listText, List.append_assoc] using numCanon_head hc0 _)
    have h4 := numberList_ok c cs ('\n' :: M) (p + kwModule.length + 1 + name.length + 1) [strPair name] hcfg valStop_lf
    have sM : Starts M := modMiddle_starts ref href ss hss _
    have h5 := nls_ok sM (p + kwModule.length + 1 + name.length + 1 + (listText c cs).length) [listPair c cs, strPair name]
    have h6 := modMiddle_ok ref href ss hss rest (p + kwModule.length + 1 + name.length + 1 + (listText c cs).length + 1)
      [listPair c cs, strPair name]
    rw [mk_pos (show p + kwModule.length + 1 + name.length + 1 + (listText c cs).length + 1 + (modMiddleText ref ss).length =
      p + (modText name c cs ref ss).length by
        simp only [modText, List.length_append, List.length_cons]; omega)] at h6
    have := Ev.seq h1 (sk_none (show NoSkipChar '=' by unfold NoSkipChar; decide))
      (Ev.seq h2 (sk_none (strCanon_head hname _)) (Ev.seq h3 s3 (Ev.seq h4 (sk_lf _ _ _) (Ev.seq h5 (sk_none sM.noSkip) h6))))
    simpa only [modText, List.append_assoc, List.cons_append, M] using this
  have := Ev.call_node (q := .module) (ty := .normal) (st := mk (modText name c cs ref ss ++ '\n' :: rest) p o) rfl (by decide) body
  have hch : (blockOut (ss.map settingLine) ((refPairs ref).reverse ++ [listPair c cs, strPair name])).reverse =
      strPair name :: listPair c cs :: (refPairs ref ++ ss.map settingPair) := by
    rw [blockOut_eq, flatMap_settingLines]
    simp only [List.reverse_append, List.reverse_reverse, List.reverse_cons, List.reverse_nil, List.nil_append,
      List.singleton_append, List.cons_append, List.append_assoc]
  simpa only [mk, take_token (modText name c cs ref ss) ('\n' :: rest) p, hch, modPair] using this

/-! ### Back to the AST -/

def refItems : Option NumTok → List ModItem
  | none => []
  | some n => [.reference n]

def modStmt (name : Str) (c : NumTok) (cs : List NumTok) (ref : Option NumTok) (ss : List Setting) : ModuleStmt :=
  { name, config := c :: cs, items := refItems ref ++ ss.map ModItem.setting }

theorem modItems_settings : ∀ (ss : List Setting), (∀ s ∈ ss, SettingCanon s) →
    modItems? (ss.map settingPair) = some (ss.map ModItem.setting)
  | [], _ => rfl
  | s :: ss, h => by
    have h1 := setting_settingPair (h s (List.mem_cons_self ..))
    have h2 := modItems_settings ss (fun x hx => h x (List.mem_cons_of_mem _ hx))
    have hr : (settingPair s).rule = .setting := rfl
    simp [modItems?, hr, h1, h2]

theorem module_modPair (name : Str) (c : NumTok) (cs : List NumTok) (hcfg : ∀ m ∈ c :: cs, NumCanon m)
    (ref : Option NumTok) (href : ∀ n, ref = some n → NatCanon n) (ss : List Setting) (hss : ∀ s ∈ ss, SettingCanon s) :
    module? (modPair name c cs ref ss) = some (modStmt name c cs ref ss) := by
  have h1 := numToks_numPairs hcfg
  simp only [List.map_cons] at h1
  have h2 := modItems_settings ss hss
  cases ref with
  | none => simp [modPair, module?, Pair.children, listPair, Pair.rule, h1, refPairs, refItems, h2, modStmt]
  | some n =>
    have hn := (href n rfl).num
    simp [modPair, module?, Pair.children, listPair, Pair.rule, h1, refPairs, refItems, modItems?, numTok_numPair hn, h2,
      modStmt]

def moduleItem (name : Str) (c : NumTok) (cs : List NumTok) (ref : Option NumTok) (ss : List Setting) : Item :=
  ⟨modText name c cs ref ss, modPair name c cs ref ss, .module (modStmt name c cs ref ss)⟩

theorem moduleItem_good (name : Str) (hname : StrCanon name) (c : NumTok) (cs : List NumTok) (hcfg : ∀ m ∈ c :: cs, NumCanon m)
    (ref : Option NumTok) (href : ∀ n, ref = some n → NatCanon n) (ss : List Setting) (hss : ∀ s ∈ ss, SettingCanon s) :
    (moduleItem name c cs ref ss).Good where
  head := ⟨'M', _, rfl, by decide⟩
  parses := by
    intro rest p o
    have hm : ∀ kw, clash kw kwModule = true → matchInsens kw (modText name c cs ref ss ++ '\n' :: rest) = none := by
      intro kw hc
      have := matchInsens_clash ('=' :: (name ++ ' ' :: (listText c cs ++ '\n' :: modMiddleText ref ss)) ++ '\n' :: rest) hc
      simpa only [modText, List.append_assoc, List.cons_append] using this
    refine Ev.call_silent rfl ?_
    show Ev false (.choice (.call .prm_text) (.choice (.call .ext_user_prm_data) (.choice (.call .module) _))) _ _
    refine Ev.choice_r (block_fail rfl (hm _ (by decide)) p o) ?_
    refine Ev.choice_r (block_fail rfl (hm _ (by decide)) p o) ?_
    exact Ev.choice_l (module_ok name hname c cs hcfg ref href ss hss rest p o)
  ast := by
    have := module_modPair name c cs hcfg ref href ss hss
    simp [moduleItem, stmt?, modPair, Pair.rule] at this ⊢
    simpa [modPair] using this

end PV.Gsd.Peg
