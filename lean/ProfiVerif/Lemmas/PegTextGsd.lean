/-
The PEG on canonical text, file level: a file `#Profibus_DP` + one `key[(idx)]=value` line per
setting is parsed to the pair tree whose `toAst` is the list of those settings.
-/
import ProfiVerif.Lemmas.PegTextSetting

namespace PV.Gsd.Peg

/-! ### Block keywords do not match a setting key -/

/-- `true`: the lower-case keyword `kw` differs from `key` (compared case-insensitively) at a position
both have — so `^"kw"` fails on `key ++ anything`. -/
def clash : Str → Str → Bool
  | [], _ => false
  | _ :: _, [] => false
  | a :: as, b :: bs => if a = b.toLower then clash as bs else true

theorem matchInsens_clash : ∀ {kw key : Str} (t : Str), clash kw key = true → matchInsens kw (key ++ t) = none
  | [], _, _, h => by simp [clash] at h
  | _ :: _, [], _, h => by simp [clash] at h
  | a :: as, b :: bs, t, h => by
    simp only [clash] at h
    simp only [List.cons_append, matchInsens]
    split
    · next hab => simp only [hab, if_true] at h; exact matchInsens_clash t h
    · rfl

/-- The keywords that open the block statements of gsd.pest (lower case). -/
def blockKeywords : List Str :=
  ["prmtext".toList, "extuserprmdata".toList, "module".toList, "slotdefinition".toList, "unitdiagtype".toList,
   "unit_diag_area".toList, "version_firmware_download".toList, "physical_interface".toList, "jokerblock_type".toList]

def KeyFree (key : Str) : Prop := ∀ kw ∈ blockKeywords, clash kw key = true

instance (key : Str) : Decidable (KeyFree key) := by unfold KeyFree; infer_instance

/-- A block rule fails where its opening keyword does not match. -/
theorem block_fail {q : Rule} {kw : Str} {body : Expr} (hq : ruleDef q = (.normal, .seq (.insens kw) body))
    {rest : Str} (hm : matchInsens kw rest = none) (p : Nat) (o : List Pair) :
    Ev false (.call q) (mk rest p o) .fail := by
  refine Ev.call_fail (by rw [hq]; exact fun h => RuleTy.noConfusion h) ?_
  rw [hq]
  exact Ev.seq_fail (Ev.insens_fail hm)

def statementE : Expr := .call .statement

theorem blocks_fail_then {rest : Str} {p : Nat} {o : List Pair} {r : R}
    (hm : ∀ kw ∈ blockKeywords, matchInsens kw rest = none)
    (hset : Ev false (.call .setting) (mk rest p o) r) : Ev false statementE (mk rest p o) r := by
  refine Ev.call_silent rfl ?_
  show Ev false (.choice (.call .prm_text) (.choice (.call .ext_user_prm_data) (.choice (.call .module)
    (.choice (.call .slot_definition) (.choice (.call .unit_diag_type) (.choice (.call .unit_diag_area)
    (.choice (.call .version_dl_definition) (.choice (.call .physical_interface) (.choice (.call .jokerblock_type)
    (.call .setting)))))))))) _ _
  refine Ev.choice_r (block_fail rfl (hm _ (by simp [blockKeywords])) p o) ?_
  refine Ev.choice_r (block_fail rfl (hm _ (by simp [blockKeywords])) p o) ?_
  refine Ev.choice_r (block_fail rfl (hm _ (by simp [blockKeywords])) p o) ?_
  refine Ev.choice_r (block_fail rfl (hm _ (by simp [blockKeywords])) p o) ?_
  refine Ev.choice_r (block_fail rfl (hm _ (by simp [blockKeywords])) p o) ?_
  refine Ev.choice_r (block_fail rfl (hm _ (by simp [blockKeywords])) p o) ?_
  refine Ev.choice_r (block_fail rfl (hm _ (by simp [blockKeywords])) p o) ?_
  refine Ev.choice_r (block_fail rfl (hm _ (by simp [blockKeywords])) p o) ?_
  refine Ev.choice_r (block_fail rfl (hm _ (by simp [blockKeywords])) p o) ?_
  exact hset

theorem statement_setting_ok (s : Setting) (hs : SettingCanon s) (hk : KeyFree s.key) (tail : Str)
    (ht : Head ValStop tail) (p : Nat) (o : List Pair) :
    Ev false statementE (mk (settingText s ++ tail) p o)
      (.ok (mk tail (p + (settingText s).length) (settingPair s :: o))) := by
  refine blocks_fail_then ?_ (setting_ok s hs tail ht p o)
  intro kw hkw
  have := matchInsens_clash (idxText s.index ++ '=' :: valueText s.value ++ tail) (hk kw hkw)
  simpa only [settingText, List.append_assoc] using this

theorem statement_eof_fail (p : Nat) (o : List Pair) : Ev false statementE (mk [] p o) .fail := by
  refine blocks_fail_then ?_ (Ev.call_fail (by decide) (Ev.seq_fail (identifier_fail [] p [] trivial)))
  intro kw hkw
  simp only [blockKeywords, List.mem_cons, List.not_mem_nil, or_false] at hkw
  rcases hkw with rfl | rfl | rfl | rfl | rfl | rfl | rfl | rfl | rfl <;> rfl

/-! ### The file -/

/-- `#Profibus_DP` + line break. -/
def hdr : Str := ['#', 'P', 'r', 'o', 'f', 'i', 'b', 'u', 's', '_', 'D', 'P', '\n']

theorem matchInsens_lower : ∀ (l t : Str), matchInsens (l.map Char.toLower) (l ++ t) = some t
  | [], _ => rfl
  | a :: l, t => by simp [matchInsens, matchInsens_lower l t]

theorem startBody_ok (rest : Str) (p : Nat) :
    Ev true (ruleDef .start).2 (mk (hdr ++ rest) p []) (.ok (mk rest (p + 13) [])) := by
  show Ev true (.seq (.str ['#']) (.seq (.insens ['p', 'r', 'o', 'f', 'i', 'b', 'u', 's', '_', 'd', 'p']) .newline)) _ _
  have h1 : Ev true (.str ['#']) (mk (hdr ++ rest) p [])
      (.ok (mk (['P', 'r', 'o', 'f', 'i', 'b', 'u', 's', '_', 'D', 'P'] ++ '\n' :: rest) (p + 1) [])) :=
    Ev.str_ok (l := ['#']) (show matchStr ['#'] ('#' :: _) = _ from matchStr_single_some)
  have h2 : Ev true (.insens ['p', 'r', 'o', 'f', 'i', 'b', 'u', 's', '_', 'd', 'p'])
      (mk (['P', 'r', 'o', 'f', 'i', 'b', 'u', 's', '_', 'D', 'P'] ++ '\n' :: rest) (p + 1) [])
      (.ok (mk ('\n' :: rest) (p + 1 + 11) [])) :=
    Ev.insens_ok (matchInsens_lower ['P', 'r', 'o', 'f', 'i', 'b', 'u', 's', '_', 'D', 'P'] ('\n' :: rest))
  have h3 : Ev true .newline (mk ('\n' :: rest) (p + 1 + 11) []) (.ok (mk rest (p + 1 + 11 + 1) [])) :=
    Ev.newline_lf rfl
  exact Ev.seq h1 Sk.atomic (Ev.seq h2 Sk.atomic h3)

def anyP : Pair := .node .any_text [] []
def startP : Pair := .node .start hdr []
def eoiP : Pair := .node .EOI [] []

theorem anyText_ok (rest : Str) (p : Nat) (o : List Pair) :
    Ev false (.call .any_text) (mk (hdr ++ rest) p o) (.ok (mk (hdr ++ rest) p (anyP :: o))) := by
  have hline : Ev true (.call .any_line) (mk (hdr ++ rest) p []) .fail := by
    refine Ev.call_fail (by decide) ?_
    show Ev true (.seq (.npred (.call .start)) _) _ _
    exact Ev.seq_fail (Ev.npred_fail (Ev.call_atomic (by decide) (startBody_ok rest p)))
  have := Ev.call_node (q := .any_text) (ty := .atomic) (st := mk (hdr ++ rest) p o) rfl (by decide) (Ev.star_nil hline)
  simpa only [mk, Nat.sub_self, List.take_zero, List.reverse_nil, anyP] using this

theorem start_ok (rest : Str) (p : Nat) (o : List Pair) :
    Ev false (.call .start) (mk (hdr ++ rest) p o) (.ok (mk rest (p + 13) (startP :: o))) := by
  have := Ev.call_node (q := .start) (ty := .atomic) (st := mk (hdr ++ rest) p o) rfl (by decide) (startBody_ok rest p)
  have ht : List.take (p + 13 - p) (hdr ++ rest) = hdr := take_token hdr rest p
  simpa only [mk, ht, List.reverse_nil, startP] using this

theorem eoi_ok (p : Nat) (o : List Pair) : Ev false (.call .EOI) (mk [] p o) (.ok (mk [] p (eoiP :: o))) := by
  have := Ev.call_node (q := .EOI) (ty := .normal) (st := mk [] p o) rfl (by decide)
    (show Ev false (.npred .any) (mk [] p []) (.ok (mk [] p [])) from Ev.npred_ok (Ev.any_fail rfl))
  simpa only [mk, Nat.sub_self, List.take_zero, List.reverse_nil, eoiP] using this

theorem idChar_props {c : Char} (h : IsIdChar c) : NoSkipChar c ∧ c ≠ '\n' ∧ c ≠ '\r' := by
  unfold NoSkipChar
  rcases h with h | h | h | h | h
  all_goals (refine ⟨⟨?_, ?_, ?_, ?_⟩, ?_, ?_⟩ <;> (intro e; subst e; revert h; decide))

theorem newline_fail_at {c : Char} {rest : Str} (h : c ≠ '\n' ∧ c ≠ '\r') (p : Nat) (o : List Pair) :
    Ev false .newline (mk (c :: rest) p o) .fail :=
  Ev.newline_fail (by intro ch r' e; cases e; exact h)

theorem newline_fail_nil (p : Nat) (o : List Pair) : Ev false .newline (mk [] p o) .fail :=
  Ev.newline_fail (by intro ch r' e; cases e)

/-- A statement: its text, the pair the grammar makes of it, the AST statement `toAst` makes of that. -/
structure Item where
  text : Str
  pair : Pair
  stmt : Stmt

/-- `statement` parses the text of the item to its pair (whatever follows the line break), the text
starts with an identifier character, and `stmt?` turns the pair into the item's statement. -/
structure Item.Good (it : Item) : Prop where
  head : ∃ c r, it.text = c :: r ∧ IsIdChar c
  parses : ∀ (rest : Str) (p : Nat) (o : List Pair),
    Ev false statementE (Peg.mk (it.text ++ '\n' :: rest) p o) (.ok (Peg.mk ('\n' :: rest) (p + it.text.length) (it.pair :: o)))
  ast : stmt? it.pair = some (some it.stmt)

/-- One line (or block) per statement, each followed by a line break. -/
def linesText : List Item → Str
  | [] => []
  | s :: ss => s.text ++ '\n' :: linesText ss

def fileText (ss : List Item) : Str := hdr ++ linesText ss

theorem valStop_lf : ValStop '\n' := by unfold ValStop NumStop NoSkipChar IsDigit; decide

def iterE : Expr := .seq (.plus .newline) (.call .statement)

theorem iter_ok (s : Item) (hs : s.Good) (rest : Str) (p : Nat) (o : List Pair) :
    Ev false iterE (mk ('\n' :: (s.text ++ '\n' :: rest)) p o)
      (.ok (mk ('\n' :: rest) (p + 1 + s.text.length) (s.pair :: o))) := by
  obtain ⟨c, r, hcr, hc⟩ := hs.head
  obtain ⟨hsk, hnl⟩ := idChar_props hc
  have hskip : Sk false (mk (s.text ++ '\n' :: rest) (p + 1) o) (.ok (mk (s.text ++ '\n' :: rest) (p + 1) o)) :=
    sk_none (by rw [hcr]; exact hsk)
  have hplus : Ev false (.plus .newline) (mk ('\n' :: (s.text ++ '\n' :: rest)) p o)
      (.ok (mk (s.text ++ '\n' :: rest) (p + 1) o)) :=
    Ev.plus_one (Ev.newline_lf rfl) hskip (by rw [hcr]; exact newline_fail_at hnl (p + 1) o)
  exact Ev.seq hplus hskip (hs.parses rest (p + 1) o)

theorem iter_end (p : Nat) (o : List Pair) : Ev false iterE (mk ['\n'] p o) .fail := by
  have hplus : Ev false (.plus .newline) (mk ['\n'] p o) (.ok (mk [] (p + 1) o)) :=
    Ev.plus_one (Ev.newline_lf rfl) (sk_none trivial) (newline_fail_nil (p + 1) o)
  exact Ev.seq hplus (sk_none trivial) (statement_eof_fail (p + 1) o)

theorem noSkip_lf : NoSkipChar '\n' := by unfold NoSkipChar; decide

theorem lp_lines : ∀ (ss : List Item) (p : Nat) (o : List Pair), (∀ s ∈ ss, s.Good) →
    Lp false iterE (mk ('\n' :: linesText ss) p o)
      (.ok (mk ['\n'] (p + (linesText ss).length) ((ss.map Item.pair).reverse ++ o)))
  | [], p, o, _ => Lp.stop (sk_none (show Head NoSkipChar ('\n' :: _) from noSkip_lf)) (iter_end p o)
  | s :: ss, p, o, h => by
    have ih := lp_lines ss (p + 1 + s.text.length) (s.pair :: o)
      (fun x hx => h x (List.mem_cons_of_mem _ hx))
    rw [mk_pos (show p + 1 + s.text.length + (linesText ss).length = p + (linesText (s :: ss)).length by
      simp only [linesText, List.length_append, List.length_cons]; omega)] at ih
    have eo : (ss.map Item.pair).reverse ++ s.pair :: o = ((s :: ss).map Item.pair).reverse ++ o := by simp
    rw [eo] at ih
    exact Lp.step (sk_none (show Head NoSkipChar ('\n' :: _) from noSkip_lf))
      (iter_ok s (h s (List.mem_cons_self ..)) (linesText ss) p o) ih

theorem star_lines (ss : List Item) (p : Nat) (o : List Pair) (h : ∀ s ∈ ss, s.Good) :
    Ev false (.star iterE) (mk ('\n' :: linesText ss) p o)
      (.ok (mk ['\n'] (p + (linesText ss).length) ((ss.map Item.pair).reverse ++ o))) := by
  cases ss with
  | nil => exact Ev.star_nil (iter_end p o)
  | cons s ss =>
    have ih := lp_lines ss (p + 1 + s.text.length) (s.pair :: o)
      (fun x hx => h x (List.mem_cons_of_mem _ hx))
    rw [mk_pos (show p + 1 + s.text.length + (linesText ss).length = p + (linesText (s :: ss)).length by
      simp only [linesText, List.length_append, List.length_cons]; omega)] at ih
    have eo : (ss.map Item.pair).reverse ++ s.pair :: o = ((s :: ss).map Item.pair).reverse ++ o := by simp
    rw [eo] at ih
    exact Ev.star_cons (iter_ok s (h s (List.mem_cons_self ..)) (linesText ss) p o) ih

/-- The pair tree of a canonical file. -/
def filePair (ss : List Item) : Pair :=
  .node .gsd (fileText ss) (anyP :: startP :: (ss.map Item.pair ++ [eoiP]))

theorem gsd_ok (s : Item) (ss : List Item) (h : ∀ x ∈ s :: ss, x.Good) :
    Ev false (.call .gsd) (mk (fileText (s :: ss)) 0 [])
      (.ok (mk [] (0 + (fileText (s :: ss)).length) [filePair (s :: ss)])) := by
  have hs := h s (List.mem_cons_self ..)
  have hss : ∀ x ∈ ss, x.Good := fun x hx => h x (List.mem_cons_of_mem _ hx)
  have hT : fileText (s :: ss) = hdr ++ (s.text ++ '\n' :: linesText ss) := rfl
  obtain ⟨c, r, hcr0, hc⟩ := hs.head
  have hcr : s.text ++ '\n' :: linesText ss = c :: (r ++ '\n' :: linesText ss) := by rw [hcr0]; rfl
  obtain ⟨hsk, hnl⟩ := idChar_props hc
  have skHash : ∀ q o, Sk false (mk (hdr ++ (s.text ++ '\n' :: linesText ss)) q o) (.ok (mk (hdr ++ (s.text ++ '\n' :: linesText ss)) q o)) :=
    fun q o => sk_none (show NoSkipChar '#' by unfold NoSkipChar; decide)
  have skL : ∀ q o, Sk false (mk (s.text ++ '\n' :: linesText ss) q o) (.ok (mk (s.text ++ '\n' :: linesText ss) q o)) :=
    fun q o => sk_none (by show Head NoSkipChar (s.text ++ '\n' :: linesText ss); rw [hcr]; exact hsk)
  have skLf : ∀ (t : Str) q o, Sk false (mk ('\n' :: t) q o) (.ok (mk ('\n' :: t) q o)) :=
    fun t q o => sk_none (show Head NoSkipChar ('\n' :: t) from noSkip_lf)
  have body : Ev false (ruleDef .gsd).2 (mk (hdr ++ (s.text ++ '\n' :: linesText ss)) 0 [])
      (.ok (mk [] (13 + s.text.length + (linesText ss).length + 1)
        (eoiP :: ((ss.map Item.pair).reverse ++ [s.pair, startP, anyP])))) := by
    show Ev false (.seq .soi (.seq (.call .any_text) (.seq (.call .start) (.seq (.star .newline)
      (.seq (.call .statement) (.seq (.star iterE) (.seq (.star .newline) (.call .EOI)))))))) _ _
    refine Ev.seq (Ev.soi_ok rfl) (skHash 0 []) ?_
    refine Ev.seq (anyText_ok (s.text ++ '\n' :: linesText ss) 0 []) (skHash 0 _) ?_
    refine Ev.seq (start_ok (s.text ++ '\n' :: linesText ss) 0 [anyP]) (skL _ _) ?_
    refine Ev.seq (Ev.star_nil (by show Ev false .newline (mk (s.text ++ '\n' :: linesText ss) _ _) .fail; rw [hcr]; exact newline_fail_at hnl _ _)) (skL _ _) ?_
    refine Ev.seq (hs.parses (linesText ss) (0 + 13) [startP, anyP]) (skLf _ _ _) ?_
    refine Ev.seq (star_lines ss _ _ hss) (skLf _ _ _) ?_
    have hnl1 : ∀ q o, Ev false (.star .newline) (mk ['\n'] q o) (.ok (mk [] (q + 1) o)) :=
      fun q o => Ev.star_cons (Ev.newline_lf rfl) (Lp.stop (sk_none trivial) (newline_fail_nil (q + 1) o))
    refine Ev.seq (hnl1 _ _) (sk_none trivial) ?_
    have := eoi_ok (0 + 13 + s.text.length + (linesText ss).length + 1)
      ((ss.map Item.pair).reverse ++ [s.pair, startP, anyP])
    simpa only [Nat.zero_add] using this
  have := Ev.call_node (q := .gsd) (ty := .normal) (st := mk (hdr ++ (s.text ++ '\n' :: linesText ss)) 0 []) rfl (by decide) body
  have hlen : 13 + s.text.length + (linesText ss).length + 1 = 0 + (fileText (s :: ss)).length := by
    simp only [fileText, linesText, hdr, List.length_append, List.length_cons, List.length_nil]; omega
  rw [hT] at hlen ⊢
  simpa only [mk, hlen, filePair, hT, Nat.zero_add, Nat.sub_zero, List.take_length, List.reverse_cons, List.reverse_append, List.reverse_reverse, List.reverse_nil,
    List.nil_append, List.cons_append, List.append_assoc, List.map_cons, List.singleton_append] using this

/-! ### Back to the AST -/

theorem stmts_items : ∀ (ss : List Item), (∀ s ∈ ss, s.Good) →
    stmts? (ss.map Item.pair ++ [eoiP]) = some (ss.map Item.stmt)
  | [], _ => rfl
  | s :: ss, h => by
    have h1 := (h s (List.mem_cons_self ..)).ast
    have h2 := stmts_items ss (fun x hx => h x (List.mem_cons_of_mem _ hx))
    simp [stmts?, h1, h2]

theorem toAst_filePair (ss : List Item) (h : ∀ s ∈ ss, s.Good) :
    toAst (filePair ss) = some (ss.map Item.stmt) := by
  have := stmts_items ss h
  simp [toAst, filePair, Pair.rule, Pair.children, stmts?, stmt?, anyP, startP, this]

/-! ### Settings as items -/

def LineCanon (s : Setting) : Prop := SettingCanon s ∧ KeyFree s.key

def settingItem (s : Setting) : Item := ⟨settingText s, settingPair s, .setting s⟩

theorem settingItem_good {s : Setting} (hs : LineCanon s) : (settingItem s).Good where
  head := by
    obtain ⟨⟨c, w, hkey, hw⟩, _⟩ := hs.1
    exact ⟨c, w ++ (idxText s.index ++ '=' :: valueText s.value), by simp [settingItem, settingText, hkey],
      hw c (List.mem_cons_self ..)⟩
  parses := fun rest p o => statement_setting_ok s hs.1 hs.2 ('\n' :: rest) valStop_lf p o
  ast := by
    have h1 := setting_settingPair hs.1
    simp [settingItem, stmt?, settingPair, Pair.rule] at h1 ⊢
    simpa [settingPair] using h1

end PV.Gsd.Peg
