/-
Helper lemmas about `UInt8` (finite facts lifted from a kernel-evaluated table over all 256 bytes).
-/
import ProfiVerif.Model.Telegram
namespace PV

/-- Lift a `decide +kernel`-checked table over `0..255` to all bytes. -/
theorem forall_u8 (p : UInt8 → Bool)
    (h : (List.range 256).all (fun n => p (UInt8.ofNat n)) = true) (b : UInt8) : p b = true := by
  rw [List.all_eq_true] at h
  have := h b.toNat (by simp [List.mem_range]; exact b.toNat_lt)
  simpa using this

theorem addr_or_and (a : UInt8) (h : a < 128) : (a ||| 128) &&& ~~~128 = a := by
  have := forall_u8 (fun a => decide (a < 128 → (a ||| 128) &&& ~~~128 = a)) (by decide +kernel) a
  simp only [decide_eq_true_eq] at this
  exact this h

theorem addr_or_bit (a : UInt8) : ((a ||| 128) &&& 128 = 0) = False := by
  have := forall_u8 (fun a => decide (¬ (a ||| 128) &&& 128 = 0)) (by decide +kernel) a
  simpa using this

theorem addr_nobit (a : UInt8) (h : a < 128) : a &&& 128 = 0 := by
  have := forall_u8 (fun a => decide (a < 128 → a &&& 128 = 0)) (by decide +kernel) a
  simp only [decide_eq_true_eq] at this
  exact this h

theorem ofNat_toNat_le (n : Nat) (h : n ≤ 255) : (UInt8.ofNat n).toNat = n := by
  simp [UInt8.toNat_ofNat']; omega

end PV
