/-
The PEG on canonical text: `ExtUserPrmData … EndExtUserPrmData`.
-/
import ProfiVerif.Lemmas.PegTextSlots
import ProfiVerif.Lemmas.PegAst

namespace PV.Gsd.Peg

/-! ### Data type names -/

def kwBit : Str := ['B', 'i', 't']
def kwBitArea : Str := ['B', 'i', 't', 'A', 'r', 'e', 'a']

def typeText : TypeName → Str
  | .bit n => kwBit ++ '(' :: (numText n ++ [')'])
  | .bitArea a b => kwBitArea ++ '(' :: (numText a ++ '-' :: (numText b ++ [')']))
  | .ident name => name

def typeInner (t : TypeName) : Pair :=
  match t with
  | .bit n => .node .bit (typeText t) [numPair n]
  | .bitArea a b => .node .bit_area (typeText t) [numPair a, numPair b]
  | .ident name => .node .identifier name []

def typePair (t : TypeName) : Pair := .node .prm_data_type_name (typeText t) [typeInner t]

def TypeCanon : TypeName → Prop
  | .bit n => NumCanon n
  | .bitArea a b => NumCanon a ∧ NumCanon b
  | .ident name => KeyChars name ∧ clash (kwBit.map Char.toLower) name = true ∧ clash (kwBitArea.map Char.toLower) name = true

theorem typeName_typePair {t : TypeName} (h : TypeCanon t) : typeName? (typePair t) = some t := by
  cases t with
  | bit n => simp [typePair, typeInner, typeName?, Pair.rule, Pair.children, numTok_numPair (show NumCanon n from h)]
  | bitArea a b => simp [typePair, typeInner, typeName?, Pair.rule, Pair.children, numTok_numPair h.1, numTok_numPair h.2]
  | ident name => simp [typePair, typeInner, typeName?, Pair.rule, Pair.children, Pair.text]

/-- What follows a type name: a blank. -/
theorem type_ok (t : TypeName) (h : TypeCanon t) (tail : Str) (p : Nat) (o : List Pair) :
    Ev false (.call .prm_data_type_name) (mk (typeText t ++ ' ' :: tail) p o)
      (.ok (mk (' ' :: tail) (p + (typeText t).length) (typePair t :: o))) := by
  have body : Ev false (ruleDef .prm_data_type_name).2 (mk (typeText t ++ ' ' :: tail) p [])
      (.ok (mk (' ' :: tail) (p + (typeText t).length) [typeInner t])) := by
    show Ev false (.choice (.call .bit) (.choice (.call .bit_area) (.call .identifier))) _ _
    cases t with
    | bit n =>
      have hn : NumCanon n := h
      refine Ev.choice_l ?_
      have bb : Ev false (ruleDef .bit).2 (mk (typeText (.bit n) ++ ' ' :: tail) p [])
          (.ok (mk (' ' :: tail) (p + (typeText (.bit n)).length) [numPair n])) := by
        show Ev false (.seq (.insens (kwBit.map Char.toLower)) (.seq (.str ['(']) (.seq (.call .number) (.str [')'])))) _ _
        have h1 := insens_lit_ok (a := false) kwBit ('(' :: (numText n ++ ')' :: ' ' :: tail)) p []
        have h2 : Ev false (.str ['(']) (mk ('(' :: (numText n ++ ')' :: ' ' :: tail)) (p + kwBit.length) [])
            (.ok (mk (numText n ++ ')' :: ' ' :: tail) (p + kwBit.length + 1) [])) := Ev.str_ok (l := ['(']) matchStr_single_some
        have h3 := numCanon_ok hn (tail := ')' :: ' ' :: tail) (show NumStop ')' by decide) (p + kwBit.length + 1) []
        have h4 : Ev false (.str [')']) (mk (')' :: ' ' :: tail) (p + kwBit.length + 1 + (numText n).length) [numPair n])
            (.ok (mk (' ' :: tail) (p + kwBit.length + 1 + (numText n).length + 1) [numPair n])) := Ev.str_ok (l := [')']) matchStr_single_some
        rw [mk_pos (show p + kwBit.length + 1 + (numText n).length + 1 = p + (typeText (.bit n)).length by
          simp only [typeText, List.length_append, List.length_cons, List.length_nil]; omega)] at h4
        have := Ev.seq h1 (sk_none (show NoSkipChar '(' by unfold NoSkipChar; decide))
          (Ev.seq h2 (sk_none (numCanon_head hn _)) (Ev.seq h3 (sk_none (show NoSkipChar ')' by unfold NoSkipChar; decide)) h4))
        simpa only [typeText, List.append_assoc, List.cons_append, List.nil_append] using this
      have := Ev.call_node (q := .bit) (ty := .normal) (st := mk (typeText (.bit n) ++ ' ' :: tail) p []) rfl (by decide) bb
      simpa only [mk, take_token (typeText (.bit n)) (' ' :: tail) p, List.reverse_cons, List.reverse_nil, List.nil_append,
        typeInner] using this
    | bitArea a b =>
      obtain ⟨ha, hb⟩ := h
      -- `bit` matches `Bit` and then fails at `A`
      have hbit : Ev false (.call .bit) (mk (typeText (.bitArea a b) ++ ' ' :: tail) p []) .fail := by
        refine Ev.call_fail (by decide) ?_
        show Ev false (.seq (.insens (kwBit.map Char.toLower)) (.seq (.str ['(']) _)) _ _
        have h1 := insens_lit_ok (a := false) kwBit ('A' :: 'r' :: 'e' :: 'a' :: '(' :: (numText a ++ '-' :: (numText b ++ [')'])) ++ ' ' :: tail) p []
        exact Ev.seq h1 (sk_none (show NoSkipChar 'A' by unfold NoSkipChar; decide))
          (Ev.seq_fail (Ev.str_fail (matchStr_single_none (show ('A' : Char) ≠ '(' by decide))))
      refine Ev.choice_r hbit (Ev.choice_l ?_)
      have bb : Ev false (ruleDef .bit_area).2 (mk (typeText (.bitArea a b) ++ ' ' :: tail) p [])
          (.ok (mk (' ' :: tail) (p + (typeText (.bitArea a b)).length) [numPair b, numPair a])) := by
        show Ev false (.seq (.insens (kwBitArea.map Char.toLower)) (.seq (.str ['(']) (.seq (.call .number)
          (.seq (.str ['-']) (.seq (.call .number) (.str [')'])))))) _ _
        have h1 := insens_lit_ok (a := false) kwBitArea ('(' :: (numText a ++ '-' :: (numText b ++ ')' :: ' ' :: tail))) p []
        have h2 : Ev false (.str ['(']) (mk ('(' :: (numText a ++ '-' :: (numText b ++ ')' :: ' ' :: tail))) (p + kwBitArea.length) [])
            (.ok (mk (numText a ++ '-' :: (numText b ++ ')' :: ' ' :: tail)) (p + kwBitArea.length + 1) [])) := Ev.str_ok (l := ['(']) matchStr_single_some
        have h3 := numCanon_ok ha (tail := '-' :: (numText b ++ ')' :: ' ' :: tail)) numStop_minus (p + kwBitArea.length + 1) []
        have h4 : Ev false (.str ['-']) (mk ('-' :: (numText b ++ ')' :: ' ' :: tail)) (p + kwBitArea.length + 1 + (numText a).length) [numPair a])
            (.ok (mk (numText b ++ ')' :: ' ' :: tail) (p + kwBitArea.length + 1 + (numText a).length + 1) [numPair a])) := Ev.str_ok (l := ['-']) matchStr_single_some
        have h5 := numCanon_ok hb (tail := ')' :: ' ' :: tail) (show NumStop ')' by decide) (p + kwBitArea.length + 1 + (numText a).length + 1) [numPair a]
        have h6 : Ev false (.str [')']) (mk (')' :: ' ' :: tail) (p + kwBitArea.length + 1 + (numText a).length + 1 + (numText b).length) [numPair b, numPair a])
            (.ok (mk (' ' :: tail) (p + kwBitArea.length + 1 + (numText a).length + 1 + (numText b).length + 1) [numPair b, numPair a])) := Ev.str_ok (l := [')']) matchStr_single_some
        rw [mk_pos (show p + kwBitArea.length + 1 + (numText a).length + 1 + (numText b).length + 1 = p + (typeText (.bitArea a b)).length by
          simp only [typeText, List.length_append, List.length_cons, List.length_nil]; omega)] at h6
        have := Ev.seq h1 (sk_none (show NoSkipChar '(' by unfold NoSkipChar; decide))
          (Ev.seq h2 (sk_none (numCanon_head ha _)) (Ev.seq h3 (sk_none (show NoSkipChar '-' by unfold NoSkipChar; decide))
            (Ev.seq h4 (sk_none (numCanon_head hb _)) (Ev.seq h5 (sk_none (show NoSkipChar ')' by unfold NoSkipChar; decide)) h6))))
        simpa only [typeText, List.append_assoc, List.cons_append, List.nil_append] using this
      have := Ev.call_node (q := .bit_area) (ty := .normal) (st := mk (typeText (.bitArea a b) ++ ' ' :: tail) p []) rfl (by decide) bb
      simpa only [mk, take_token (typeText (.bitArea a b)) (' ' :: tail) p, List.reverse_cons, List.reverse_nil, List.nil_append,
        List.singleton_append, typeInner] using this
    | ident name =>
      obtain ⟨⟨c, w, rfl, hw⟩, hc1, hc2⟩ := h
      have hbit : Ev false (.call .bit) (mk (typeText (.ident (c :: w)) ++ ' ' :: tail) p []) .fail :=
        block_fail rfl (matchInsens_clash (' ' :: tail) hc1) p []
      have hba : Ev false (.call .bit_area) (mk (typeText (.ident (c :: w)) ++ ' ' :: tail) p []) .fail :=
        block_fail rfl (matchInsens_clash (' ' :: tail) hc2) p []
      refine Ev.choice_r hbit (Ev.choice_r hba ?_)
      exact identifier_ok c w (' ' :: tail) p [] hw (show ¬ IsIdChar ' ' by decide)
  have := Ev.call_node (q := .prm_data_type_name) (ty := .normal) (st := mk (typeText t ++ ' ' :: tail) p o) rfl (by decide) body
  simpa only [mk, take_token (typeText t) (' ' :: tail) p, List.reverse_cons, List.reverse_nil, List.nil_append, typePair] using this

theorem type_starts {t : TypeName} (h : TypeCanon t) : Starts (typeText t) := by
  cases t with
  | bit n => exact ⟨'B', _, rfl, by decide⟩
  | bitArea a b => exact ⟨'B', _, rfl, by decide⟩
  | ident name => obtain ⟨⟨c, w, rfl, hw⟩, _⟩ := h; exact ⟨c, w, rfl, hw c (List.mem_cons_self ..)⟩

/-! ### The optional constraint behind the default value -/

/-- Text of the constraint incl. the separating blank. -/
def conText : Option PrmConstraintAst → Str
  | none => []
  | some (.range a b) => ' ' :: (numText a ++ '-' :: numText b)
  | some (.set []) => []
  | some (.set (v :: vs)) => ' ' :: listText v vs

def conPairs : Option PrmConstraintAst → List Pair
  | none => []
  | some (.range a b) => [.node .prm_data_value_range (numText a ++ '-' :: numText b) [numPair a, numPair b]]
  | some (.set []) => []
  | some (.set (v :: vs)) => [.node .prm_data_value_set (listText v vs) ((v :: vs).map numPair)]

def ConCanon : Option PrmConstraintAst → Prop
  | none => True
  | some (.range a b) => NumCanon a ∧ NumCanon b
  | some (.set vs) => vs ≠ [] ∧ ∀ v ∈ vs, NumCanon v

def conE : Expr := .opt (.choice (.call .prm_data_value_range) (.call .prm_data_value_set))

theorem numFail_lf (rest : Str) (p : Nat) (o : List Pair) : Ev false (.call .number) (mk ('\n' :: rest) p o) .fail :=
  number_fail ('\n' :: rest) p o (show ¬ IsDigit '\n' ∧ ('\n' : Char) ≠ '-' by decide)

/-- After the default value: the implicit skip and the optional constraint, up to the line break. -/
theorem con_ok (c : Option PrmConstraintAst) (h : ConCanon c) (rest : Str) (p : Nat) (o : List Pair) :
    ∃ st1, Sk false (mk (conText c ++ '\n' :: rest) p o) (.ok st1) ∧
      Ev false conE st1 (.ok (mk ('\n' :: rest) (p + (conText c).length) ((conPairs c).reverse ++ o))) := by
  match c, h with
  | none, _ =>
    refine ⟨_, sk_lf rest p o, ?_⟩
    refine Ev.opt_none (Ev.choice_r (Ev.call_fail (by decide) ?_) (Ev.call_fail (by decide) ?_))
    · show Ev false (.seq (.call .number) _) _ _
      exact Ev.seq_fail (numFail_lf rest p [])
    · show Ev false (.seq (.call .number) _) _ _
      exact Ev.seq_fail (numFail_lf rest p [])
  | some (.range a b), h =>
    obtain ⟨ha, hb⟩ := h
    refine ⟨mk (numText a ++ '-' :: (numText b ++ '\n' :: rest)) (p + 1) o, ?_, ?_⟩
    · have := sk_blank (rest := numText a ++ '-' :: (numText b ++ '\n' :: rest)) (p := p) (o := o) (numCanon_head ha _)
      simpa only [conText, List.cons_append, List.append_assoc] using this
    · have hb' := rangeBody_ok a b ha hb ('\n' :: rest) numStop_lf (p + 1)
      have hb3 : Ev false (ruleDef .prm_data_value_range).2 (mk ((numText a ++ '-' :: numText b) ++ '\n' :: rest) (p + 1) [])
          (.ok (mk ('\n' :: rest) (p + 1 + (numText a ++ '-' :: numText b).length) [numPair b, numPair a])) := by
        have e : p + 1 + ((numText a).length + 1 + (numText b).length) = p + 1 + (numText a ++ '-' :: numText b).length := by
          simp only [List.length_append, List.length_cons]; omega
        rw [mk_pos e] at hb'
        have hb4 : Ev false (.seq (.call .number) (.seq (.str ['-']) (.call .number)))
            (mk ((numText a ++ '-' :: numText b) ++ '\n' :: rest) (p + 1) [])
            (.ok (mk ('\n' :: rest) (p + 1 + (numText a ++ '-' :: numText b).length) [numPair b, numPair a])) := by
          simpa only [List.append_assoc, List.cons_append] using hb'
        exact hb4
      have := Ev.call_node (q := .prm_data_value_range) (ty := .normal)
        (st := mk ((numText a ++ '-' :: numText b) ++ '\n' :: rest) (p + 1) o) rfl (by decide) hb3
      have e2 : p + 1 + (numText a ++ '-' :: numText b).length = p + (conText (some (.range a b))).length := by
        simp only [conText, List.length_cons]; omega
      rw [← e2]
      refine Ev.opt_some (Ev.choice_l ?_)
      have ht : List.take (p + 1 + (numText a ++ '-' :: numText b).length - (p + 1))
          (numText a ++ '-' :: (numText b ++ '\n' :: rest)) = numText a ++ '-' :: numText b := by
        have := take_token (numText a ++ '-' :: numText b) ('\n' :: rest) (p + 1)
        simpa only [List.append_assoc, List.cons_append] using this
      simpa only [mk, ht, List.reverse_cons, List.reverse_nil,
        List.nil_append, List.singleton_append, conPairs, List.append_assoc, List.cons_append] using this
  | some (.set []), h => exact (h.1 rfl).elim
  | some (.set (v :: vs)), h =>
    obtain ⟨_, hvs⟩ := h
    have hv := hvs v (List.mem_cons_self ..)
    refine ⟨mk (listText v vs ++ '\n' :: rest) (p + 1) o, ?_, ?_⟩
    · have := sk_blank (rest := listText v vs ++ '\n' :: rest) (p := p) (o := o)
        (by simpa only [listText, List.append_assoc] using numCanon_head hv _)
      simpa only [conText, List.cons_append] using this
    · have hfail : Ev false (.call .prm_data_value_range) (mk (listText v vs ++ '\n' :: rest) (p + 1) o) .fail := by
        have hf : Ev false (.seq (.call .number) (.seq (.str ['-']) (.call .number)))
            (mk (listText v vs ++ '\n' :: rest) (p + 1) []) .fail := by
          have := rangeBody_fail v hv (commaNums vs ++ '\n' :: rest)
            (head_commaNums_or vs (by unfold NoSkipChar; decide) (show NumStop '\n' ∧ ('\n' : Char) ≠ '-' ∧ NoSkipChar '\n' by
              unfold NoSkipChar; decide)) (p + 1)
          simpa only [listText, List.append_assoc] using this
        exact Ev.call_fail (by decide) hf
      have hb := setBody_ok v vs hvs ('\n' :: rest) setStop_lf (p + 1)
      have := Ev.call_node (q := .prm_data_value_set) (ty := .normal) (st := mk (listText v vs ++ '\n' :: rest) (p + 1) o) rfl (by decide)
        (show Ev false (ruleDef .prm_data_value_set).2 _ _ from hb)
      have e2 : p + 1 + (listText v vs).length = p + (conText (some (.set (v :: vs)))).length := by
        simp only [conText, List.length_cons]; omega
      rw [← e2]
      refine Ev.opt_some (Ev.choice_r hfail ?_)
      simpa only [mk, take_token (listText v vs) ('\n' :: rest) (p + 1), List.reverse_reverse, conPairs,
        List.reverse_cons, List.reverse_nil, List.nil_append, List.singleton_append] using this

theorem conText_numStop (c : Option PrmConstraintAst) (rest : Str) : Head NumStop (conText c ++ '\n' :: rest) := by
  match c with
  | none => exact numStop_lf
  | some (.range a b) => show NumStop ' '; decide
  | some (.set []) => exact numStop_lf
  | some (.set (v :: vs)) => show NumStop ' '; decide

/-! ### `Prm_Text_Ref=`, `Changeable=`, `Visible=` lines -/

def numLineText (kwLit : Str) (n : NumTok) : Str := kwLit ++ '=' :: (numText n ++ ['\n'])

def numLinePair (q : Rule) (kwLit : Str) (n : NumTok) : Pair := .node q (numLineText kwLit n) [numPair n]

def numLineBody (kwLit : Str) : Expr :=
  .seq (.insens (kwLit.map Char.toLower)) (.seq (.str ['=']) (.seq (.call .number) (.plus .newline)))

theorem numLine_ok (q : Rule) (kwLit : Str) (hq : ruleDef q = (.normal, numLineBody kwLit)) (n : NumTok) (hn : NumCanon n)
    (rest : Str) (hrest : Starts rest) (p : Nat) (o : List Pair) :
    Ev false (.call q) (mk (numLineText kwLit n ++ rest) p o)
      (.ok (mk rest (p + (numLineText kwLit n).length) (numLinePair q kwLit n :: o))) := by
  have body : Ev false (ruleDef q).2 (mk (numLineText kwLit n ++ rest) p [])
      (.ok (mk rest (p + (numLineText kwLit n).length) [numPair n])) := by
    rw [hq]
    show Ev false (numLineBody kwLit) _ _
    unfold numLineBody
    have h1 := insens_lit_ok (a := false) kwLit ('=' :: (numText n ++ '\n' :: rest)) p []
    have h2 : Ev false (.str ['=']) (mk ('=' :: (numText n ++ '\n' :: rest)) (p + kwLit.length) [])
        (.ok (mk (numText n ++ '\n' :: rest) (p + kwLit.length + 1) [])) := Ev.str_ok (l := ['=']) matchStr_single_some
    have h3 := numCanon_ok hn (tail := '\n' :: rest) numStop_lf (p + kwLit.length + 1) []
    have h4 := nls_ok hrest (p + kwLit.length + 1 + (numText n).length) [numPair n]
    rw [mk_pos (show p + kwLit.length + 1 + (numText n).length + 1 = p + (numLineText kwLit n).length by
      simp only [numLineText, List.length_append, List.length_cons, List.length_nil]; omega)] at h4
    have := Ev.seq h1 (sk_none (show NoSkipChar '=' by unfold NoSkipChar; decide))
      (Ev.seq h2 (sk_none (numCanon_head hn _)) (Ev.seq h3 (sk_lf _ _ _) h4))
    simpa only [numLineText, List.append_assoc, List.cons_append, List.nil_append] using this
  have hty : (ruleDef q).1 = .normal := by rw [hq]
  have := Ev.call_node (q := q) (ty := .normal) (st := mk (numLineText kwLit n ++ rest) p o) hty (by decide) body
  simpa only [mk, take_token (numLineText kwLit n) rest p, List.reverse_cons, List.reverse_nil, List.nil_append,
    numLinePair] using this

def optLineText (kwLit : Str) : Option NumTok → Str
  | none => []
  | some n => numLineText kwLit n

def optLinePairs (q : Rule) (kwLit : Str) : Option NumTok → List Pair
  | none => []
  | some n => [numLinePair q kwLit n]

theorem optLine_ok (q : Rule) (kwLit : Str) (hq : ruleDef q = (.normal, numLineBody kwLit)) (v : Option NumTok)
    (hv : ∀ n, v = some n → NumCanon n) (rest : Str) (hrest : Starts rest)
    (hclash : matchInsens (kwLit.map Char.toLower) rest = none) (p : Nat) (o : List Pair) :
    Ev false (.opt (.call q)) (mk (optLineText kwLit v ++ rest) p o)
      (.ok (mk rest (p + (optLineText kwLit v).length) ((optLinePairs q kwLit v).reverse ++ o))) := by
  cases v with
  | none =>
    refine Ev.opt_none (Ev.call_fail (by rw [hq]; exact fun h => RuleTy.noConfusion h) ?_)
    rw [hq]
    exact Ev.seq_fail (Ev.insens_fail hclash)
  | some n => exact Ev.opt_some (numLine_ok q kwLit hq n (hv n rfl) rest hrest p o)

theorem optLine_starts (kwLit : Str) (hk : Starts kwLit) (v : Option NumTok) {rest : Str} (hr : Starts rest) :
    Starts (optLineText kwLit v ++ rest) := by
  cases v with
  | none => exact hr
  | some n => simpa only [optLineText, numLineText, List.append_assoc] using hk.append _

/-! ### The block -/

def kwExt : Str := ['E', 'x', 't', 'U', 's', 'e', 'r', 'P', 'r', 'm', 'D', 'a', 't', 'a']
def kwEndExt : Str := ['E', 'n', 'd', 'E', 'x', 't', 'U', 's', 'e', 'r', 'P', 'r', 'm', 'D', 'a', 't', 'a']
def kwRef : Str := ['P', 'r', 'm', '_', 'T', 'e', 'x', 't', '_', 'R', 'e', 'f']
def kwCh : Str := ['C', 'h', 'a', 'n', 'g', 'e', 'a', 'b', 'l', 'e']
def kwVis : Str := ['V', 'i', 's', 'i', 'b', 'l', 'e']

/-- The optional lines and the end keyword. -/
def extTail (e : ExtPrmStmt) : Str :=
  optLineText kwRef e.textRef ++ (optLineText kwCh e.changeable ++ (optLineText kwVis e.visible ++ kwEndExt))

def extText (e : ExtPrmStmt) : Str :=
  kwExt ++ '=' :: (numText e.id ++ ' ' :: (e.name ++ '\n' :: (typeText e.typ ++ ' ' :: (numText e.default ++
    (conText e.constraint ++ '\n' :: extTail e)))))

def extPair (e : ExtPrmStmt) : Pair :=
  .node .ext_user_prm_data (extText e)
    (numPair e.id :: strPair e.name :: typePair e.typ :: numPair e.default ::
      (conPairs e.constraint ++ (optLinePairs .prm_text_ref kwRef e.textRef ++
        (optLinePairs .prm_data_changeable kwCh e.changeable ++ optLinePairs .prm_data_visible kwVis e.visible))))

def ExtCanon (e : ExtPrmStmt) : Prop :=
  NumCanon e.id ∧ StrCanon e.name ∧ TypeCanon e.typ ∧ NumCanon e.default ∧ ConCanon e.constraint ∧
    (∀ n, e.textRef = some n → NumCanon n) ∧ (∀ n, e.changeable = some n → NumCanon n) ∧
    (∀ n, e.visible = some n → NumCanon n)

/-- A keyword that clashes with the three keywords that can come next does not match there. -/
theorem clash_next (kw : Str) (ch vis : Option NumTok) (tail : Str)
    (h1 : clash kw kwCh = true) (h2 : clash kw kwVis = true) (h3 : clash kw kwEndExt = true) :
    matchInsens kw (optLineText kwCh ch ++ (optLineText kwVis vis ++ (kwEndExt ++ tail))) = none := by
  cases ch with
  | some n => simpa only [optLineText, numLineText, List.append_assoc] using matchInsens_clash (key := kwCh) _ h1
  | none =>
    cases vis with
    | some n => simpa only [optLineText, numLineText, List.append_assoc, List.nil_append] using matchInsens_clash (key := kwVis) _ h2
    | none => simpa only [optLineText, List.nil_append] using matchInsens_clash (key := kwEndExt) tail h3

theorem ext_ok (e : ExtPrmStmt) (h : ExtCanon e) (tail : Str) (p : Nat) (o : List Pair) :
    Ev false (.call .ext_user_prm_data) (mk (extText e ++ tail) p o)
      (.ok (mk tail (p + (extText e).length) (extPair e :: o))) := by
  obtain ⟨hid, hname, hty, hd, hcon, href, hch, hvis⟩ := h
  obtain ⟨id, name, typ, dflt, con, ref, ch, vis⟩ := e
  simp only at hid hname hty hd hcon href hch hvis
  -- the tails
  have sEnd : Starts (kwEndExt ++ tail) := ⟨'E', _, rfl, by decide⟩
  have sV : Starts (optLineText kwVis vis ++ (kwEndExt ++ tail)) := optLine_starts kwVis ⟨'V', _, rfl, by decide⟩ vis sEnd
  have sC : Starts (optLineText kwCh ch ++ (optLineText kwVis vis ++ (kwEndExt ++ tail))) :=
    optLine_starts kwCh ⟨'C', _, rfl, by decide⟩ ch sV
  have sR : Starts (optLineText kwRef ref ++ (optLineText kwCh ch ++ (optLineText kwVis vis ++ (kwEndExt ++ tail)))) :=
    optLine_starts kwRef ⟨'P', _, rfl, by decide⟩ ref sC
  obtain ⟨st1, hsk1, hconE⟩ := con_ok con hcon
    (optLineText kwRef ref ++ (optLineText kwCh ch ++ (optLineText kwVis vis ++ (kwEndExt ++ tail))))
    (p + kwExt.length + 1 + (numText id).length + 1 + name.length + 1 + (typeText typ).length + 1 + (numText dflt).length)
    [numPair dflt, typePair typ, strPair name, numPair id]
  have body : Ev false (ruleDef .ext_user_prm_data).2 (mk (extText ⟨id, name, typ, dflt, con, ref, ch, vis⟩ ++ tail) p [])
      (.ok (mk tail (p + (extText ⟨id, name, typ, dflt, con, ref, ch, vis⟩).length)
        ((optLinePairs .prm_data_visible kwVis vis).reverse ++ ((optLinePairs .prm_data_changeable kwCh ch).reverse ++
          ((optLinePairs .prm_text_ref kwRef ref).reverse ++ ((conPairs con).reverse ++
            [numPair dflt, typePair typ, strPair name, numPair id])))))) := by
    show Ev false (.seq (.insens (kwExt.map Char.toLower)) (.seq (.str ['=']) (.seq (.call .number) (.seq (.call .string_literal)
      (.seq (.plus .newline) (.seq (.call .prm_data_type_name) (.seq (.call .number) (.seq conE (.seq (.plus .newline)
      (.seq (.opt (.call .prm_text_ref)) (.seq (.opt (.call .prm_data_changeable)) (.seq (.opt (.call .prm_data_visible))
      (.insens (kwEndExt.map Char.toLower)))))))))))))) _ _
    let T3 := kwEndExt ++ tail
    let V := optLineText kwVis vis ++ T3
    let C := optLineText kwCh ch ++ V
    let R := optLineText kwRef ref ++ C
    let X := conText con ++ '\n' :: R
    have h1 := insens_lit_ok (a := false) kwExt
      ('=' :: (numText id ++ ' ' :: (name ++ '\n' :: (typeText typ ++ ' ' :: (numText dflt ++ X))))) p []
    have h2 : Ev false (.str ['=']) (mk ('=' :: (numText id ++ ' ' :: (name ++ '\n' :: (typeText typ ++ ' ' :: (numText dflt ++ X))))) (p + kwExt.length) [])
        (.ok (mk (numText id ++ ' ' :: (name ++ '\n' :: (typeText typ ++ ' ' :: (numText dflt ++ X)))) (p + kwExt.length + 1) [])) :=
      Ev.str_ok (l := ['=']) matchStr_single_some
    have h3 := numCanon_ok hid (tail := ' ' :: (name ++ '\n' :: (typeText typ ++ ' ' :: (numText dflt ++ X)))) (show NumStop ' ' by decide)
      (p + kwExt.length + 1) []
    have s3 := sk_blank (rest := name ++ '\n' :: (typeText typ ++ ' ' :: (numText dflt ++ X)))
      (p := p + kwExt.length + 1 + (numText id).length) (o := [numPair id]) (strCanon_head hname _)
    have h4 := strCanon_ok hname ('\n' :: (typeText typ ++ ' ' :: (numText dflt ++ X)))
      (p + kwExt.length + 1 + (numText id).length + 1) [numPair id]
    have sTy : Starts (typeText typ ++ ' ' :: (numText dflt ++ X)) := (type_starts hty).append _
    have h5 := nls_ok sTy (p + kwExt.length + 1 + (numText id).length + 1 + name.length) [strPair name, numPair id]
    have h6 := type_ok typ hty (numText dflt ++ X) (p + kwExt.length + 1 + (numText id).length + 1 + name.length + 1)
      [strPair name, numPair id]
    have s6 := sk_blank (rest := numText dflt ++ X)
      (p := p + kwExt.length + 1 + (numText id).length + 1 + name.length + 1 + (typeText typ).length)
      (o := [typePair typ, strPair name, numPair id]) (numCanon_head hd _)
    have h7 := numCanon_ok hd (tail := X) (conText_numStop con R)
      (p + kwExt.length + 1 + (numText id).length + 1 + name.length + 1 + (typeText typ).length + 1)
      [typePair typ, strPair name, numPair id]
    have h9 := nls_ok (rest := R) sR
      (p + kwExt.length + 1 + (numText id).length + 1 + name.length + 1 + (typeText typ).length + 1 + (numText dflt).length + (conText con).length)
      ((conPairs con).reverse ++ [numPair dflt, typePair typ, strPair name, numPair id])
    have h10 := optLine_ok .prm_text_ref kwRef rfl ref href C sC (clash_next _ ch vis tail (by decide) (by decide) (by decide))
      (p + kwExt.length + 1 + (numText id).length + 1 + name.length + 1 + (typeText typ).length + 1 + (numText dflt).length + (conText con).length + 1)
      ((conPairs con).reverse ++ [numPair dflt, typePair typ, strPair name, numPair id])
    have h11 := optLine_ok .prm_data_changeable kwCh rfl ch hch V sV
      (by cases vis with
          | some n => simpa only [V, optLineText, numLineText, List.append_assoc] using matchInsens_clash (key := kwVis) _ (by decide)
          | none => simpa only [V, optLineText, List.nil_append] using matchInsens_clash (key := kwEndExt) tail (by decide))
      (p + kwExt.length + 1 + (numText id).length + 1 + name.length + 1 + (typeText typ).length + 1 + (numText dflt).length + (conText con).length + 1 + (optLineText kwRef ref).length)
      ((optLinePairs .prm_text_ref kwRef ref).reverse ++ ((conPairs con).reverse ++ [numPair dflt, typePair typ, strPair name, numPair id]))
    have h12 := optLine_ok .prm_data_visible kwVis rfl vis hvis T3 sEnd (matchInsens_clash (key := kwEndExt) tail (by decide))
      (p + kwExt.length + 1 + (numText id).length + 1 + name.length + 1 + (typeText typ).length + 1 + (numText dflt).length + (conText con).length + 1 + (optLineText kwRef ref).length + (optLineText kwCh ch).length)
      ((optLinePairs .prm_data_changeable kwCh ch).reverse ++ ((optLinePairs .prm_text_ref kwRef ref).reverse ++ ((conPairs con).reverse ++ [numPair dflt, typePair typ, strPair name, numPair id])))
    have h13 := insens_lit_ok (a := false) kwEndExt tail
      (p + kwExt.length + 1 + (numText id).length + 1 + name.length + 1 + (typeText typ).length + 1 + (numText dflt).length + (conText con).length + 1 + (optLineText kwRef ref).length + (optLineText kwCh ch).length + (optLineText kwVis vis).length)
      ((optLinePairs .prm_data_visible kwVis vis).reverse ++ ((optLinePairs .prm_data_changeable kwCh ch).reverse ++ ((optLinePairs .prm_text_ref kwRef ref).reverse ++ ((conPairs con).reverse ++ [numPair dflt, typePair typ, strPair name, numPair id]))))
    rw [mk_pos (show p + kwExt.length + 1 + (numText id).length + 1 + name.length + 1 + (typeText typ).length + 1 + (numText dflt).length + (conText con).length + 1 + (optLineText kwRef ref).length + (optLineText kwCh ch).length + (optLineText kwVis vis).length + kwEndExt.length =
      p + (extText ⟨id, name, typ, dflt, con, ref, ch, vis⟩).length by
        simp only [extText, extTail, List.length_append, List.length_cons]; omega)] at h13
    have := Ev.seq h1 (sk_none (show NoSkipChar '=' by unfold NoSkipChar; decide))
      (Ev.seq h2 (sk_none (numCanon_head hid _))
        (Ev.seq h3 s3
          (Ev.seq h4 (sk_lf _ _ _)
            (Ev.seq h5 (sk_none sTy.noSkip)
              (Ev.seq h6 s6
                (Ev.seq h7 hsk1
                  (Ev.seq hconE (sk_lf _ _ _)
                    (Ev.seq h9 (sk_none sR.noSkip)
                      (Ev.seq h10 (sk_none sC.noSkip)
                        (Ev.seq h11 (sk_none sV.noSkip)
                          (Ev.seq h12 (sk_none sEnd.noSkip) h13)))))))))))
    simpa only [extText, extTail, List.append_assoc, List.cons_append, X, R, C, V, T3] using this
  have := Ev.call_node (q := .ext_user_prm_data) (ty := .normal)
    (st := mk (extText ⟨id, name, typ, dflt, con, ref, ch, vis⟩ ++ tail) p o) rfl (by decide) body
  simpa only [mk, take_token (extText ⟨id, name, typ, dflt, con, ref, ch, vis⟩) tail p, extPair, List.reverse_append,
    List.reverse_reverse, List.reverse_cons, List.reverse_nil, List.nil_append, List.append_assoc, List.cons_append,
    List.singleton_append] using this

/-! ### Back to the AST -/

theorem constraint_conPairs (c : Option PrmConstraintAst) (hc : ConCanon c) (rest : List Pair)
    (hrest : ∀ q r, rest = q :: r → q.rule ≠ .prm_data_value_range ∧ q.rule ≠ .prm_data_value_set) :
    constraint? (conPairs c ++ rest) = some (c, rest) := by
  match c, hc with
  | none, _ =>
    cases rest with
    | nil => rfl
    | cons q r =>
      obtain ⟨h1, h2⟩ := hrest q r rfl
      simp [conPairs, constraint?, h1, h2]
  | some (.range a b), h =>
    simp [conPairs, constraint?, Pair.rule, Pair.children, numTok_numPair h.1, numTok_numPair h.2]
  | some (.set []), h => exact (h.1 rfl).elim
  | some (.set (v :: vs)), h =>
    have := numToks_numPairs h.2
    simp only [List.map_cons] at this
    simp [conPairs, constraint?, Pair.rule, Pair.children, this]

theorem optNumChild_optLine (q : Rule) (kw : Str) (v : Option NumTok) (hv : ∀ n, v = some n → NumCanon n) (rest : List Pair)
    (hrest : ∀ x r, rest = x :: r → x.rule ≠ q) :
    optNumChild q (optLinePairs q kw v ++ rest) = some (v, rest) := by
  cases v with
  | none =>
    cases rest with
    | nil => rfl
    | cons x r => simp [optLinePairs, optNumChild, hrest x r rfl]
  | some n => simp [optLinePairs, optNumChild, numLinePair, Pair.rule, Pair.children, numTok_numPair (hv n rfl)]

theorem optLinePairs_rule (q : Rule) (kw : Str) (v : Option NumTok) (x : Pair) (r : List Pair) (rest : List Pair)
    (h : optLinePairs q kw v ++ rest = x :: r) : x.rule = q ∨ rest = x :: r := by
  cases v with
  | none => exact .inr h
  | some n =>
    simp only [optLinePairs, List.cons_append, List.nil_append, List.cons.injEq] at h
    exact .inl (h.1 ▸ rfl)

theorem extPrm_extPair (e : ExtPrmStmt) (h : ExtCanon e) : extPrm? (extPair e) = some e := by
  obtain ⟨hid, hname, hty, hd, hcon, href, hch, hvis⟩ := h
  obtain ⟨id, name, typ, dflt, con, ref, ch, vis⟩ := e
  simp only at hid hname hty hd hcon href hch hvis
  rw [extPrm?_eq]
  -- rules of the pairs that may follow
  have hvisR : ∀ x r, optLinePairs .prm_data_visible kwVis vis = x :: r → x.rule = .prm_data_visible := by
    intro x r hx
    cases vis with
    | none => cases hx
    | some n => simp only [optLinePairs, List.cons.injEq] at hx; exact hx.1 ▸ rfl
  have hchR : ∀ x r, optLinePairs .prm_data_changeable kwCh ch ++ optLinePairs .prm_data_visible kwVis vis = x :: r →
      x.rule = .prm_data_changeable ∨ x.rule = .prm_data_visible := by
    intro x r hx
    rcases optLinePairs_rule _ _ _ _ _ _ hx with h | h
    · exact .inl h
    · exact .inr (hvisR x r h)
  have hrefR : ∀ x r, optLinePairs .prm_text_ref kwRef ref ++ (optLinePairs .prm_data_changeable kwCh ch ++
      optLinePairs .prm_data_visible kwVis vis) = x :: r →
      x.rule = .prm_text_ref ∨ x.rule = .prm_data_changeable ∨ x.rule = .prm_data_visible := by
    intro x r hx
    rcases optLinePairs_rule _ _ _ _ _ _ hx with h | h
    · exact .inl h
    · exact .inr (hchR x r h)
  have c1 := constraint_conPairs con hcon _ (by
    intro x r hx
    rcases hrefR x r hx with h | h | h <;> rw [h] <;> decide)
  have c2 := optNumChild_optLine .prm_text_ref kwRef ref href
    (optLinePairs .prm_data_changeable kwCh ch ++ optLinePairs .prm_data_visible kwVis vis) (by
    intro x r hx
    rcases hchR x r hx with h | h <;> rw [h] <;> decide)
  have c3 := optNumChild_optLine .prm_data_changeable kwCh ch hch (optLinePairs .prm_data_visible kwVis vis) (by
    intro x r hx
    rw [hvisR x r hx]; decide)
  have c4 := optNumChild_optLine .prm_data_visible kwVis vis hvis [] (by intro x r hx; cases hx)
  simp only [List.append_nil] at c4
  simp [extPair, Pair.children, numTok_numPair hid, numTok_numPair hd, typeName_typePair hty, c1, c2, c3, c4]

def extItem (e : ExtPrmStmt) : Item := ⟨extText e, extPair e, .extPrm e⟩

theorem extItem_good (e : ExtPrmStmt) (h : ExtCanon e) : (extItem e).Good where
  head := ⟨'E', _, rfl, by decide⟩
  parses := by
    intro rest p o
    have hm : ∀ kw, clash kw kwExt = true → matchInsens kw (extText e ++ '\n' :: rest) = none := by
      intro kw hc
      have := matchInsens_clash ('=' :: (numText e.id ++ ' ' :: (e.name ++ '\n' :: (typeText e.typ ++ ' ' :: (numText e.default ++
        (conText e.constraint ++ '\n' :: extTail e))))) ++ '\n' :: rest) hc
      simpa only [extText, List.append_assoc, List.cons_append] using this
    refine Ev.call_silent rfl ?_
    show Ev false (.choice (.call .prm_text) (.choice (.call .ext_user_prm_data) _)) _ _
    refine Ev.choice_r (block_fail rfl (hm _ (by decide)) p o) ?_
    exact Ev.choice_l (ext_ok e h ('\n' :: rest) p o)
  ast := by
    have := extPrm_extPair e h
    simp [extItem, stmt?, extPair, Pair.rule] at this ⊢
    simpa [extPair] using this

end PV.Gsd.Peg
