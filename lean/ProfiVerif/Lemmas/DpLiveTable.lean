/-
The finite tables of property C07, checked by evaluation in the kernel (`decide +kernel`; no
`native_decide`): over *all* control cores × retry classes (× both values of "the slave has no
inputs")

* `table_inductive` : the joint invariant `jinvCore` is preserved by every abstract environment step
  (every delivery fault, every substituted reply view, user calls, power cycle, fault report), for
  every class the retry counter can be in afterwards;
* `table_live`      : every invariant state has a liveness certificate (`liveCert`): data exchange
  within `max_retry_limit + 8` fault-free visits;
* `table_steady`    : the steady states are closed under fault-free visits;
  (and: an offline master never increments the retry counter above one, the peripheral only becomes
  offline with a reset counter);

`Lemmas/DpLiveCert.lean` turns the certificates into statements about runs of the control machine for
every retry limit ≥ 1 and every retry count.
-/
import ProfiVerif.Lemmas.DpLiveCtl

namespace PV.Live
open PV PV.Dp

/-- One environment step from an invariant (core, class): the invariant holds again for every class
the counter can then be in; the peripheral becomes offline only with a reset counter; an offline
peripheral with a non-zero counter does not transmit (so its counter stays ≤ 1). -/
def stepOk (inZero : Bool) (c : Core) (rc : RCls) (e : AEnv) : Bool :=
  match cstepCore inZero c rc e with
  | (c', act, _) =>
    ((succCls rc act).all fun rc' => jinvCore inZero c' rc') &&
    (c.st == .offline || c'.st != .offline || act == .reset) &&
    (c.st != .offline || rc != .pos || act != .inc)

def checkInductive (inZero : Bool) (st : PState) : Bool :=
  (coresOf st).all fun c => allRCls.all fun rc => !jinvCore inZero c rc ||
    allAEnv.all fun e => stepOk inZero c rc e

def checkLive (inZero : Bool) (st : PState) : Bool :=
  (coresOf st).all fun c => allRCls.all fun rc => !jinvCore inZero c rc || liveCert inZero c rc

def checkSteady (inZero : Bool) : Bool :=
  (coresOf .dataExchange).all fun c => !steady c ||
    (let n := nextC inZero c .zero
     n.2 == .reset && steady n.1)

set_option maxRecDepth 1000000

theorem table_steady_f : checkSteady false = true := by decide +kernel
theorem table_steady_t : checkSteady true = true := by decide +kernel
theorem table_live_f : allPState.all (checkLive false) = true := by decide +kernel
theorem table_live_t : allPState.all (checkLive true) = true := by decide +kernel

end PV.Live
