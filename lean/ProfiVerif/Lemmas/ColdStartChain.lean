/-
Cold start of two stations, chained: from both stations listening on a silent bus through the first claim, the
second token and the GAP sweep up to the first answered GAP request (reply "not ready" received).  Helper lemmas.
-/
import ProfiVerif.Lemmas.ColdStartLink

namespace PV
open StationGap TokenRing

theorem witness_las_uninit (r : TokenRing) (a : Nat) (ha : a ≤ 125) (h : r.las = .uninitialized) :
    (r.witness a a).las = .discovery := by
  unfold TokenRing.witness
  rw [if_neg (by omega), if_neg (by omega)]
  simp [h]

theorem witness_las_disc (r : TokenRing) (a : Nat) (ha : a ≤ 125) (h : r.las = .discovery) :
    (r.witness a a).las = .verification := by
  unfold TokenRing.witness
  rw [if_neg (by omega), if_neg (by omega)]
  simp [h]

/-- **A fresh listener is not ready before the third token**: the LAS passes through discovery and verification. -/
theorem witnessK_notReady (aL : Nat) (haL : aL ≤ 125) (r : TokenRing) (hr : r.las = .uninitialized) (k : Nat) (hk : k ≤ 2) :
    (witnessK aL k r).readyForRing = false := by
  have h1 := witness_las_uninit r aL haL hr
  have h2 := witness_las_disc _ aL haL h1
  match k, hk with
  | 0, _ => unfold witnessK TokenRing.readyForRing; simp [hr]
  | 1, _ => unfold witnessK witnessK TokenRing.readyForRing; simp [h1]
  | 2, _ => unfold witnessK witnessK witnessK TokenRing.readyForRing; simp [h2]

/-- **Run of claimant and listener up to the first answered GAP request**: as `DuoRun`; when the claimant sends the
GAP request to the listener's address the run goes on as `RplRun` (request registered, pause, reply "not ready",
reply received no later than `2·ce 5 + bits 33 + 3P` after the request). -/
def DuoRun2 (cfg : Cfg) (x y aL aH : Nat) (B : Int) : Net → List (Nat × Int) → Prop
  | _, [] => True
  | n, (i, now) :: rest =>
    ∃ n' inc c, n.poll i now = (n', inc, some (.ok c)) ∧
      ((i = y ∧ c.tx = none ∧ DuoRun2 cfg x y aL aH B n' rest) ∨
       (i = x ∧ now ≤ B ∧
          ((c.s.st = .useToken ⟨now, none⟩ false ∧ c.tx = some (selfToken aL)) ∨
           (c.tx = some (statusRequestBytes aH aL) ∧
              RplRun cfg x y aL aH .masterNotReady (now + 2 * ((cfg.ce 5 : Nat) : Int) + (cfg.b33 : Nat) + 3 * (cfg.P : Nat)) n' rest) ∨
           (DuoTx aL aH c ∧ DuoRun2 cfg x y aL aH B n' rest))))

theorem duo_run2 {cfg : Cfg} (hok : cfg.Ok) (hP100 : cfg.P ≤ 100000) (G : Nat) (hG : cfg.slot + 3 * cfg.P ≤ G) (x y : Nat)
    (r0 : TokenRing) (hr0 : r0.las = .uninitialized) (B : Int) (aL hsa : Nat) (sty0 : NetStation) :
    ∀ (evs : List (Nat × Int)) (n : Net) (stx sty : NetStation) (l : Int) (stage : SStage) (hd : List Telegram) (tl : Int),
    Duo cfg G n x y stx sty l stage r0 hd tl → n.stations.length = 2 → stx.s.p.address = aL → stx.s.p.hsa = hsa →
    sty.s.p.address = sty0.s.p.address →
    max (n.bus.seen.getD x 0) (l + ((stage.wait cfg : Nat) : Int)) + ((stage.rest cfg aL hsa : Nat) : Int) ≤ B →
    SchedN cfg.P n tl evs → DuoRun2 cfg x y aL sty0.s.p.address B n evs := by
  intro evs
  induction evs with
  | nil => intro _ _ _ _ _ _ _ _ _ _ _ _ _ _; trivial
  | cons ev rest ih =>
    intro n stx sty l stage hd tl d hN haL hhsa haH hB hs
    obtain ⟨i, now⟩ := ev
    obtain ⟨hi, htl, hown, hgap, hrest⟩ := hs
    have hxl := d.solo.xl
    have hyl := d.yl
    have hgx := hgap x hxl
    have hgy := hgap y hyl
    have hixy : i = x ∨ i = y := by have := d.yx; omega
    subst haL hhsa
    rcases hixy with rfl | rfl
    · obtain ⟨n', c, hp, hnB, hout⟩ := duo_claimant d hok hP100 hG B hB now htl hown hgx hgy
      have hn' : (n.poll i now).1 = n' := by rw [hp]
      rw [hn'] at hrest
      refine ⟨n', [], c, hp, .inr ⟨rfl, hnB, ?_⟩⟩
      rcases hout with h1 | h2 | ⟨stage', l', d', htx, hB'⟩
      · exact .inl h1
      · have hlen' : n'.stations.length = 2 := by
          have := Net.poll_len n i now; rw [hp] at this; simp only at this; rw [this]; exact hN
        obtain ⟨dn, rs, lY, coll, hq0, hcnt⟩ := duo_request_hq0 d hok hP100 B hB now htl hown hgx hgy n' c hp h2
        have hpeq : c.s.p = stx.s.p := Net.poll_params n i now n' [] c stx hp d.solo.gx
        have e1 : (upSt stx c).s.p.address = stx.s.p.address := by show c.s.p.address = _; rw [hpeq]
        refine .inr (.inl ⟨by rw [← haH]; exact h2, ?_⟩)
        have hnr : (hearAll stx.s.p.address (hd ++ rs.map telOf) r0).readyForRing = false := by
          rw [hearAll_count]
          exact witnessK_notReady _ (by have := d.aL_lt; omega) r0 hr0 _ hcnt
        exact reply_run hok G hG i y now r0 (hd ++ rs.map telOf) stx.s.p.address sty0.s.p.address .masterNotReady
          (fun s hs => listenReport_notReady s _ (by rw [hs]; exact hnr)) rest n' (upSt stx c) sty
          coll now (.inl ⟨hd, dn, rs, lY, hq0, rfl⟩) hlen' e1 haH hrest
      · refine .inr (.inr ⟨?_, ?_⟩)
        · rw [← haH]; exact htx
        · have hpeq : c.s.p = stx.s.p := by
            obtain ⟨-, st0, hst0, -, hpoll0⟩ := Net.poll_bus n i now n' [] c hp
            rw [d.solo.gx] at hst0; cases hst0
            exact (poll_frame _ _ _ _ _ c hpoll0).1
          have e1 : (upSt stx c).s.p.address = stx.s.p.address := by show c.s.p.address = _; rw [hpeq]
          have e2 : (upSt stx c).s.p.hsa = stx.s.p.hsa := by show c.s.p.hsa = _; rw [hpeq]
          have hlen' : n'.stations.length = 2 := by
            have := Net.poll_len n i now; rw [hp] at this; simp only at this; rw [this]; exact hN
          have hseen : n'.bus.seen.getD i 0 = now := by
            have := Net.poll_seenN n i now; rw [hp] at this; simp only at this
            rw [this, seen_set_self _ _ _ d.solo.xs]
          exact ih n' (upSt stx c) sty l' stage' hd now d' hlen' e1 e2 haH (by rw [hseen]; exact hB') hrest
    · obtain ⟨n', inc, c, sty', hd', hp, htx, d'⟩ := duo_listen d hok now htl hown hgx
      have hn' : (n.poll i now).1 = n' := by rw [hp]
      rw [hn'] at hrest
      refine ⟨n', inc, c, hp, .inl ⟨rfl, htx, ?_⟩⟩
      have hlen' : n'.stations.length = 2 := by
        have := Net.poll_len n i now; rw [hp] at this; simp only at this; rw [this]; exact hN
      have hseen : n'.bus.seen.getD x 0 = n.bus.seen.getD x 0 := by
        have := Net.poll_seenN n i now; rw [hp] at this; simp only at this
        rw [this, seen_set_other _ _ _ _ d.yx]
      have haH' : sty'.s.p.address = sty0.s.p.address := by
        have := d'.gy
        obtain ⟨-, st0, hst0, hset, hpoll0⟩ := Net.poll_bus n i now n' inc c hp
        rw [d.gy] at hst0; cases hst0
        rw [hset, List.getElem?_set_self d.yl] at this
        have e := (Option.some.inj this).symm
        rw [e]
        show c.s.p.address = _
        rw [(poll_frame _ _ _ _ _ c hpoll0).1]; exact haH
      exact ih n' stx sty' l stage hd' now d' hlen' rfl rfl haH' (by rw [hseen]; exact hB) hrest


/-- **Cold start of two stations up to the first answered GAP request** (`T`, `lim`, `D` as in `TwoRun`). -/
def TwoRun2 (cfg : Cfg) (x y aL aH : Nat) (T lim : Int) (D : Nat) : Net → List (Nat × Int) → Prop
  | _, [] => True
  | n, (i, now) :: rest =>
    ∃ n' inc c, n.poll i now = (n', inc, some (.ok c)) ∧
      ((c.tx = none ∧ (i = x → now < T) ∧ TwoRun2 cfg x y aL aH T lim D n' rest) ∨
       (i = x ∧ T ≤ now ∧ now ≤ lim ∧ c.tx = some (selfToken aL) ∧ c.s.st = .claimToken .secondToken ∧
          DuoRun2 cfg x y aL aH (now + (D : Int)) n' rest))

theorem two_cold_start2 {cfg : Cfg} (hok : cfg.Ok) (hP100 : cfg.P ≤ 100000) (G : Nat) (hG : cfg.slot + 3 * cfg.P ≤ G)
    (x y : Nat) (stx sty : NetStation) (lx ly : Int)
    (hGy : G + cfg.ce 0 + 2 ≤ sty.s.p.tokenLostTimeout) (hne : stx.s.p.address ≠ sty.s.p.address)
    (hsync : cfg.b33 < stx.s.p.tokenLostTimeout) (hr0 : sty.s.ring.las = .uninitialized)
    (hv : RingView [stx.s.p.address] stx.s.p.address stx.s.ring.claimToken)
    (hstag : lx + (stx.s.p.tokenLostTimeout : Nat) + (cfg.P : Nat) + ((cfg.ce 0 : Nat) : Int) < ly + (sty.s.p.tokenLostTimeout : Nat)) :
    ∀ (evs : List (Nat × Int)) (n : Net) (tl : Int), CS2 cfg n x y stx sty lx ly → n.stations.length = 2 →
    n.bus.seen.getD x 0 < lx + (stx.s.p.tokenLostTimeout : Nat) → n.bus.seen.getD y 0 ≤ tl → SchedN cfg.P n tl evs →
    TwoRun2 cfg x y stx.s.p.address sty.s.p.address (lx + (stx.s.p.tokenLostTimeout : Nat))
      (lx + (stx.s.p.tokenLostTimeout : Nat) + (cfg.P : Nat)) (cfg.formTime stx.s.p.hsa) n evs := by
  intro evs
  induction evs with
  | nil => intro _ _ _ _ _ _ _; trivial
  | cons ev rest ih =>
    intro n tl h hN hsx hsy hs
    obtain ⟨i, now⟩ := ev
    obtain ⟨hi, htl, hown, hgap, hrest⟩ := hs
    have hgx := hgap x h.solo.xl
    have hgy := hgap y h.yl
    have hixy : i = x ∨ i = y := by have := h.yx; have := h.solo.xl; have := h.yl; omega
    have hc0 := cfg.ce_pos hok.rate 0
    rcases hixy with rfl | rfl
    · by_cases hw : now < lx + (stx.s.p.tokenLostTimeout : Nat)
      · obtain ⟨n', c, hp, htx, h', hseen⟩ := cs2_wait_x h hok now hown hw
        have hn' : (n.poll i now).1 = n' := by rw [hp]
        rw [hn'] at hrest
        refine ⟨n', [], c, hp, .inl ⟨htx, fun _ => hw, ?_⟩⟩
        have hlen' : n'.stations.length = 2 := by
          have := Net.poll_len n i now; rw [hp] at this; simp only at this; rw [this]; exact hN
        exact ih n' now h' hlen' (by rw [hseen, seen_set_self _ _ _ h.solo.xs]; exact hw)
          (by rw [hseen, seen_set_other _ _ _ _ (Ne.symm h.yx)]; omega) hrest
      · obtain ⟨n', c, hp, htx, hcs, hp', d⟩ := duo_init h hok G hG hGy hne now hown (by omega) (by omega) hsync hv (by omega)
        have hn' : (n.poll i now).1 = n' := by rw [hp]
        rw [hn'] at hrest
        refine ⟨n', [], c, hp, .inr ⟨rfl, by omega, by omega, htx, hcs, ?_⟩⟩
        have hlen' : n'.stations.length = 2 := by
          have := Net.poll_len n i now; rw [hp] at this; simp only at this; rw [this]; exact hN
        have e1 : (upSt stx c).s.p.address = stx.s.p.address := by show c.s.p.address = _; rw [hp']
        have e2 : (upSt stx c).s.p.hsa = stx.s.p.hsa := by show c.s.p.hsa = _; rw [hp']
        have hseen : n'.bus.seen.getD i 0 = now := by
          have := Net.poll_seenN n i now; rw [hp] at this; simp only at this
          rw [this, seen_set_self _ _ _ h.solo.xs]
        refine duo_run2 hok hP100 G hG i y sty.s.ring hr0 (now + (cfg.formTime stx.s.p.hsa : Nat)) stx.s.p.address stx.s.p.hsa sty rest n'
          (upSt stx c) sty (now + (cfg.b33 : Nat)) .c2 [] now d hlen' e1 e2 rfl ?_ hrest
        rw [hseen]
        simp only [SStage.wait, SStage.rest, remGap_self _ _ h.solo.inv.addr]
        unfold Cfg.formTime
        push_cast
        omega
    · have hw : now < ly + (sty.s.p.tokenLostTimeout : Nat) := by omega
      obtain ⟨n', c, hp, htx, h', hseen⟩ := cs2_wait_y h now hown hw
      have hn' : (n.poll i now).1 = n' := by rw [hp]
      rw [hn'] at hrest
      refine ⟨n', [], c, hp, .inl ⟨htx, fun e => absurd e h.yx, ?_⟩⟩
      have hlen' : n'.stations.length = 2 := by
        have := Net.poll_len n i now; rw [hp] at this; simp only at this; rw [this]; exact hN
      exact ih n' now h' hlen' (by rw [hseen, seen_set_other _ _ _ _ h.yx]; exact hsx)
        (by rw [hseen, seen_set_self _ _ _ h.ys]; exact Int.le_refl _) hrest

end PV
