/-
The PEG on canonical text, block statements: generic "lines until the end keyword" loops, the
`Text(n)="…"` / `Value(n)="…"` lines, `PrmText … EndPrmText` and `Unit_Diag_Area … Unit_Diag_Area_End`.
-/
import ProfiVerif.Lemmas.PegTextGsd

namespace PV.Gsd.Peg

/-! ### Keywords -/

theorem insens_lit_ok {a : Bool} (lit t : Str) (p : Nat) (o : List Pair) :
    Ev a (.insens (lit.map Char.toLower)) (mk (lit ++ t) p o) (.ok (mk t (p + lit.length) o)) := by
  have := Ev.insens_ok (a := a) (st := mk (lit ++ t) p o) (matchInsens_lower lit t)
  simpa only [mk, List.length_map] using this

/-- The text begins with an identifier character (a statement, a line of a block, an end keyword). -/
def Starts (t : Str) : Prop := ∃ c r, t = c :: r ∧ IsIdChar c

theorem Starts.append {t : Str} (h : Starts t) (u : Str) : Starts (t ++ u) := by
  obtain ⟨c, r, rfl, hc⟩ := h
  exact ⟨c, r ++ u, rfl, hc⟩

theorem Starts.noSkip {t : Str} (h : Starts t) : Head NoSkipChar t := by
  obtain ⟨c, r, rfl, hc⟩ := h
  exact (idChar_props hc).1

theorem Starts.newline_fail {t : Str} (h : Starts t) (p : Nat) (o : List Pair) : Ev false .newline (mk t p o) .fail := by
  obtain ⟨c, r, rfl, hc⟩ := h
  exact newline_fail_at (idChar_props hc).2 p o

/-- `NEWLINE+` over one line feed in front of the next line. -/
theorem nls_ok {rest : Str} (h : Starts rest) (p : Nat) (o : List Pair) :
    Ev false (.plus .newline) (mk ('\n' :: rest) p o) (.ok (mk rest (p + 1) o)) :=
  Ev.plus_one (Ev.newline_lf rfl) (sk_none h.noSkip) (h.newline_fail (p + 1) o)

theorem sk_lf (t : Str) (p : Nat) (o : List Pair) : Sk false (mk ('\n' :: t) p o) (.ok (mk ('\n' :: t) p o)) :=
  sk_none (show Head NoSkipChar ('\n' :: t) from noSkip_lf)

/-! ### Lines until an end keyword -/

structure BlockLine where
  text : Str          -- including the line break(s)
  pairs : List Pair   -- the pairs the line contributes, in order

def blockText : List BlockLine → Str
  | [] => []
  | l :: ls => l.text ++ blockText ls

/-- Output after the lines (most recent first). -/
def blockOut : List BlockLine → List Pair → List Pair
  | [], o => o
  | l :: ls, o => blockOut ls (l.pairs.reverse ++ o)

theorem blockOut_eq : ∀ (ls : List BlockLine) (o : List Pair), blockOut ls o = (ls.flatMap (·.pairs)).reverse ++ o
  | [], o => rfl
  | l :: ls, o => by simp [blockOut, blockOut_eq ls, List.flatMap_cons]

/-- `x` parses the line in front of anything that starts like a line. -/
structure BlockLine.Good (x : Expr) (l : BlockLine) : Prop where
  starts : Starts l.text
  parses : ∀ (rest : Str) (p : Nat) (o : List Pair), Starts rest →
    Ev false x (Peg.mk (l.text ++ rest) p o) (.ok (Peg.mk rest (p + l.text.length) (l.pairs.reverse ++ o)))

theorem starts_block {ls : List BlockLine} {x : Expr} (h : ∀ l ∈ ls, l.Good x) {tail : Str} (ht : Starts tail) :
    Starts (blockText ls ++ tail) := by
  cases ls with
  | nil => exact ht
  | cons l ls => simpa only [blockText, List.append_assoc] using (h l (List.mem_cons_self ..)).starts.append _

section block
variable {x : Expr} {tail : Str} (ht : Starts tail) (hend : ∀ p o, Ev false x (mk tail p o) .fail)
include ht hend

theorem lp_block : ∀ (ls : List BlockLine) (p : Nat) (o : List Pair), (∀ l ∈ ls, l.Good x) →
    Lp false x (mk (blockText ls ++ tail) p o) (.ok (mk tail (p + (blockText ls).length) (blockOut ls o)))
  | [], p, o, _ => Lp.stop (sk_none ht.noSkip) (hend p o)
  | l :: ls, p, o, h => by
    have hl := h l (List.mem_cons_self ..)
    have hls : ∀ m ∈ ls, m.Good x := fun m hm => h m (List.mem_cons_of_mem _ hm)
    have ih := lp_block ls (p + l.text.length) (l.pairs.reverse ++ o) hls
    rw [mk_pos (show p + l.text.length + (blockText ls).length = p + (blockText (l :: ls)).length by
      simp only [blockText, List.length_append]; omega)] at ih
    have h1 := hl.parses (blockText ls ++ tail) p o (starts_block hls ht)
    refine Lp.step (sk_none ?_) ?_ ih
    · simpa only [blockText, List.append_assoc] using (hl.starts.append (blockText ls ++ tail)).noSkip
    · simpa only [blockText, List.append_assoc] using h1

theorem star_block (ls : List BlockLine) (p : Nat) (o : List Pair) (h : ∀ l ∈ ls, l.Good x) :
    Ev false (.star x) (mk (blockText ls ++ tail) p o) (.ok (mk tail (p + (blockText ls).length) (blockOut ls o))) := by
  cases ls with
  | nil => exact Ev.star_nil (hend p o)
  | cons l ls =>
    have hl := h l (List.mem_cons_self ..)
    have hls : ∀ m ∈ ls, m.Good x := fun m hm => h m (List.mem_cons_of_mem _ hm)
    have ih := lp_block ht hend ls (p + l.text.length) (l.pairs.reverse ++ o) hls
    rw [mk_pos (show p + l.text.length + (blockText ls).length = p + (blockText (l :: ls)).length by
      simp only [blockText, List.length_append]; omega)] at ih
    have h1 := hl.parses (blockText ls ++ tail) p o (starts_block hls ht)
    refine Ev.star_cons ?_ ih
    simpa only [blockText, List.append_assoc] using h1

theorem plus_block (l : BlockLine) (ls : List BlockLine) (p : Nat) (o : List Pair) (h : ∀ m ∈ l :: ls, m.Good x) :
    Ev false (.plus x) (mk (blockText (l :: ls) ++ tail) p o)
      (.ok (mk tail (p + (blockText (l :: ls)).length) (blockOut (l :: ls) o))) := by
  have hl := h l (List.mem_cons_self ..)
  have hls : ∀ m ∈ ls, m.Good x := fun m hm => h m (List.mem_cons_of_mem _ hm)
  have h1 := hl.parses (blockText ls ++ tail) p o (starts_block hls ht)
  have hsk : Sk false (mk (blockText ls ++ tail) (p + l.text.length) (l.pairs.reverse ++ o))
      (.ok (mk (blockText ls ++ tail) (p + l.text.length) (l.pairs.reverse ++ o))) :=
    sk_none (starts_block hls ht).noSkip
  have h1' : Ev false x (mk (blockText (l :: ls) ++ tail) p o)
      (.ok (mk (blockText ls ++ tail) (p + l.text.length) (l.pairs.reverse ++ o))) := by
    simpa only [blockText, List.append_assoc] using h1
  cases ls with
  | nil =>
    have := Ev.plus_one h1' hsk (by simpa only [blockText, List.nil_append] using hend (p + l.text.length) (l.pairs.reverse ++ o))
    simpa only [blockText, List.nil_append, List.append_nil, blockOut] using this
  | cons m ms =>
    have hm := h m (by simp)
    have hms : ∀ k ∈ ms, k.Good x := fun k hk => h k (by simp [hk])
    have h2 := hm.parses (blockText ms ++ tail) (p + l.text.length) (l.pairs.reverse ++ o) (starts_block hms ht)
    have ih := lp_block ht hend ms (p + l.text.length + m.text.length) (m.pairs.reverse ++ (l.pairs.reverse ++ o)) hms
    rw [mk_pos (show p + l.text.length + m.text.length + (blockText ms).length = p + (blockText (l :: m :: ms)).length by
      simp only [blockText, List.length_append]; omega)] at ih
    refine Ev.plus_more h1' hsk ?_ ih
    simpa only [blockText, List.append_assoc] using h2

end block

/-! ### `Text(n)="…"` / `Value(n)="…"` lines -/

def strPair (raw : Str) : Pair := .node .string_literal raw []

theorem strCanon_ok {raw : Str} (h : StrCanon raw) (tail : Str) (p : Nat) (o : List Pair) :
    Ev false (.call .string_literal) (mk (raw ++ tail) p o) (.ok (mk tail (p + raw.length) (strPair raw :: o))) := by
  obtain ⟨s, rfl, hs⟩ := h
  have := string_ok s tail hs p o
  simpa [strPair, Nat.add_assoc] using this

theorem strCanon_head {raw : Str} (h : StrCanon raw) (tail : Str) : Head NoSkipChar (raw ++ tail) := by
  obtain ⟨s, rfl, _⟩ := h
  show NoSkipChar '"'
  unfold NoSkipChar; decide

theorem numCanon_ok {n : NumTok} (h : NumCanon n) {tail : Str} (hs : Head NumStop tail) (p : Nat) (o : List Pair) :
    Ev false (.call .number) (mk (numText n ++ tail) p o) (.ok (mk tail (p + (numText n).length) (numPair n :: o))) := by
  cases n with
  | hex t => exact h.elim
  | dec t => exact number_ok (show DecText t from h) hs p o

theorem numCanon_head {n : NumTok} (h : NumCanon n) (tail : Str) : Head NoSkipChar (numText n ++ tail) := by
  cases n with
  | hex t => exact h.elim
  | dec t => exact head_of_dec (show DecText t from h) fun c hc => (digit_cases hc).1

def valueLineText (kwLit : Str) (n : NumTok) (raw : Str) : Str :=
  kwLit ++ '(' :: (numText n ++ ')' :: '=' :: raw)

def valueLinePair (q : Rule) (kwLit : Str) (n : NumTok) (raw : Str) : Pair :=
  .node q (valueLineText kwLit n raw) [numPair n, strPair raw]

def valueLineBody (kwLit : Str) : Expr :=
  .seq (.insens (kwLit.map Char.toLower)) (.seq (.str ['(']) (.seq (.call .number) (.seq (.str [')'])
    (.seq (.str ['=']) (.call .string_literal)))))

theorem valueLine_ok (q : Rule) (kwLit : Str) (hq : ruleDef q = (.normal, valueLineBody kwLit))
    (n : NumTok) (hn : NumCanon n) (raw : Str) (hr : StrCanon raw) (tail : Str) (p : Nat) (o : List Pair) :
    Ev false (.call q) (mk (valueLineText kwLit n raw ++ tail) p o)
      (.ok (mk tail (p + (valueLineText kwLit n raw).length) (valueLinePair q kwLit n raw :: o))) := by
  have body : Ev false (ruleDef q).2 (mk (valueLineText kwLit n raw ++ tail) p [])
      (.ok (mk tail (p + (valueLineText kwLit n raw).length) [strPair raw, numPair n])) := by
    rw [hq]
    show Ev false (valueLineBody kwLit) _ _
    unfold valueLineBody
    have h1 := insens_lit_ok (a := false) kwLit ('(' :: (numText n ++ ')' :: '=' :: (raw ++ tail))) p []
    have h2 : Ev false (.str ['(']) (mk ('(' :: (numText n ++ ')' :: '=' :: (raw ++ tail))) (p + kwLit.length) [])
        (.ok (mk (numText n ++ ')' :: '=' :: (raw ++ tail)) (p + kwLit.length + 1) [])) :=
      Ev.str_ok (l := ['(']) matchStr_single_some
    have h3 := numCanon_ok hn (tail := ')' :: '=' :: (raw ++ tail)) (show NumStop ')' by decide) (p + kwLit.length + 1) []
    have h4 : Ev false (.str [')']) (mk (')' :: '=' :: (raw ++ tail)) (p + kwLit.length + 1 + (numText n).length) [numPair n])
        (.ok (mk ('=' :: (raw ++ tail)) (p + kwLit.length + 1 + (numText n).length + 1) [numPair n])) :=
      Ev.str_ok (l := [')']) matchStr_single_some
    have h5 : Ev false (.str ['=']) (mk ('=' :: (raw ++ tail)) (p + kwLit.length + 1 + (numText n).length + 1) [numPair n])
        (.ok (mk (raw ++ tail) (p + kwLit.length + 1 + (numText n).length + 1 + 1) [numPair n])) :=
      Ev.str_ok (l := ['=']) matchStr_single_some
    have h6 := strCanon_ok hr tail (p + kwLit.length + 1 + (numText n).length + 1 + 1) [numPair n]
    rw [mk_pos (show p + kwLit.length + 1 + (numText n).length + 1 + 1 + raw.length = p + (valueLineText kwLit n raw).length by
      simp only [valueLineText, List.length_append, List.length_cons]; omega)] at h6
    have := Ev.seq h1 (sk_none (show NoSkipChar '(' by unfold NoSkipChar; decide))
      (Ev.seq h2 (sk_none (numCanon_head hn _))
        (Ev.seq h3 (sk_none (show NoSkipChar ')' by unfold NoSkipChar; decide))
          (Ev.seq h4 (sk_none (show NoSkipChar '=' by unfold NoSkipChar; decide))
            (Ev.seq h5 (sk_none (strCanon_head hr tail)) h6))))
    simpa only [valueLineText, List.append_assoc, List.cons_append] using this
  have hty : (ruleDef q).1 = .normal := by rw [hq]
  have := Ev.call_node (q := q) (ty := .normal) (st := mk (valueLineText kwLit n raw ++ tail) p o) hty (by decide) body
  simpa only [mk, take_token (valueLineText kwLit n raw) tail p, List.reverse_cons, List.reverse_nil, List.nil_append,
    List.singleton_append, valueLinePair] using this

/-- One `Kw(n)="…"` line incl. its line break. -/
def valueBlockLine (q : Rule) (kwLit : Str) (l : NumTok × Str) : BlockLine :=
  ⟨valueLineText kwLit l.1 l.2 ++ ['\n'], [valueLinePair q kwLit l.1 l.2]⟩

def LineOk (l : NumTok × Str) : Prop := NumCanon l.1 ∧ StrCanon l.2

theorem valueBlockLine_good (q : Rule) (kwLit : Str) (hq : ruleDef q = (.normal, valueLineBody kwLit))
    (hkw : Starts kwLit) (l : NumTok × Str) (hl : LineOk l) :
    (valueBlockLine q kwLit l).Good (.seq (.call q) (.plus .newline)) where
  starts := by simpa only [valueBlockLine, valueLineText, List.append_assoc] using hkw.append _
  parses := by
    intro rest p o hrest
    have h1 := valueLine_ok q kwLit hq l.1 hl.1 l.2 hl.2 ('\n' :: rest) p o
    have h2 := nls_ok hrest (p + (valueLineText kwLit l.1 l.2).length) (valueLinePair q kwLit l.1 l.2 :: o)
    rw [mk_pos (show p + (valueLineText kwLit l.1 l.2).length + 1 = p + (valueBlockLine q kwLit l).text.length by
      simp only [valueBlockLine, List.length_append, List.length_cons, List.length_nil]; omega)] at h2
    have := Ev.seq h1 (sk_lf _ _ _) h2
    simpa only [valueBlockLine, List.append_assoc, List.singleton_append, List.reverse_cons, List.reverse_nil,
      List.nil_append] using this

theorem valueLine_end (q : Rule) (kwLit : Str) (hq : ruleDef q = (.normal, valueLineBody kwLit))
    (endKw after : Str) (hc : clash (kwLit.map Char.toLower) endKw = true) (p : Nat) (o : List Pair) :
    Ev false (.seq (.call q) (.plus .newline)) (mk (endKw ++ after) p o) .fail := by
  refine Ev.seq_fail (Ev.call_fail (by rw [hq]; exact fun h => RuleTy.noConfusion h) ?_)
  rw [hq]
  exact Ev.seq_fail (Ev.insens_fail (matchInsens_clash after hc))

@[simp] theorem valueLinePair_rule (q : Rule) (kw : Str) (n : NumTok) (raw : Str) :
    (valueLinePair q kw n raw).rule = q := rfl
@[simp] theorem valueLinePair_children (q : Rule) (kw : Str) (n : NumTok) (raw : Str) :
    (valueLinePair q kw n raw).children = [numPair n, strPair raw] := rfl
@[simp] theorem strLit_strPair (raw : Str) : strLit? (strPair raw) = some raw := rfl

theorem valueLines_pairs (q : Rule) (kwLit : Str) : ∀ (ls : List (NumTok × Str)), (∀ l ∈ ls, LineOk l) →
    valueLines? q (ls.map fun l => valueLinePair q kwLit l.1 l.2) = some ls
  | [], _ => rfl
  | l :: ls, h => by
    have hl := h l (List.mem_cons_self ..)
    have ih := valueLines_pairs q kwLit ls (fun m hm => h m (List.mem_cons_of_mem _ hm))
    simp [valueLines?, numTok_numPair hl.1, ih]

/-! ### `PrmText` -/

def kwText : Str := ['T', 'e', 'x', 't']
def kwPrmText : Str := ['P', 'r', 'm', 'T', 'e', 'x', 't']
def kwEndPrmText : Str := ['E', 'n', 'd', 'P', 'r', 'm', 'T', 'e', 'x', 't']

def textLine (l : NumTok × Str) : BlockLine := valueBlockLine .prm_text_value kwText l

def prmTextText (id : NumTok) (ls : List (NumTok × Str)) : Str :=
  kwPrmText ++ '=' :: (numText id ++ '\n' :: (blockText (ls.map textLine) ++ kwEndPrmText))

def prmTextPair (id : NumTok) (ls : List (NumTok × Str)) : Pair :=
  .node .prm_text (prmTextText id ls) (numPair id :: ls.map fun l => valueLinePair .prm_text_value kwText l.1 l.2)

def PrmTextCanon (t : PrmTextStmt) : Prop := NumCanon t.id ∧ t.values ≠ [] ∧ ∀ l ∈ t.values, LineOk l

theorem numStop_lf : NumStop '\n' := by decide

theorem flatMap_valueLines (q : Rule) (kw : Str) (ls : List (NumTok × Str)) :
    (ls.map (valueBlockLine q kw)).flatMap (·.pairs) = ls.map fun l => valueLinePair q kw l.1 l.2 := by
  induction ls with
  | nil => rfl
  | cons l ls ih => simp [List.flatMap_cons, valueBlockLine, ih]

theorem prmText_ok (id : NumTok) (hid : NumCanon id) (l : NumTok × Str) (ls : List (NumTok × Str))
    (hls : ∀ m ∈ l :: ls, LineOk m) (tail : Str) (p : Nat) (o : List Pair) :
    Ev false (.call .prm_text) (mk (prmTextText id (l :: ls) ++ tail) p o)
      (.ok (mk tail (p + (prmTextText id (l :: ls)).length) (prmTextPair id (l :: ls) :: o))) := by
  have hq : ruleDef .prm_text_value = (.normal, valueLineBody kwText) := rfl
  have hgood : ∀ m ∈ (l :: ls).map textLine, m.Good (.seq (.call .prm_text_value) (.plus .newline)) := by
    intro m hm
    obtain ⟨k, hk, rfl⟩ := List.mem_map.mp hm
    exact valueBlockLine_good .prm_text_value kwText hq ⟨'T', _, rfl, by decide⟩ k (hls k hk)
  have hendStarts : Starts (kwEndPrmText ++ tail) := ⟨'E', _, rfl, by decide⟩
  have hend := valueLine_end .prm_text_value kwText hq kwEndPrmText tail (by decide)
  have body : Ev false (ruleDef .prm_text).2 (mk (prmTextText id (l :: ls) ++ tail) p [])
      (.ok (mk tail (p + (prmTextText id (l :: ls)).length) (blockOut ((l :: ls).map textLine) [numPair id]))) := by
    show Ev false (.seq (.insens (kwPrmText.map Char.toLower)) (.seq (.str ['=']) (.seq (.call .number) (.seq (.plus .newline)
      (.seq (.plus (.seq (.call .prm_text_value) (.plus .newline))) (.insens (kwEndPrmText.map Char.toLower))))))) _ _
    let B := blockText ((l :: ls).map textLine)
    have h1 := insens_lit_ok (a := false) kwPrmText ('=' :: (numText id ++ '\n' :: (B ++ (kwEndPrmText ++ tail)))) p []
    have h2 : Ev false (.str ['=']) (mk ('=' :: (numText id ++ '\n' :: (B ++ (kwEndPrmText ++ tail)))) (p + kwPrmText.length) [])
        (.ok (mk (numText id ++ '\n' :: (B ++ (kwEndPrmText ++ tail))) (p + kwPrmText.length + 1) [])) :=
      Ev.str_ok (l := ['=']) matchStr_single_some
    have h3 := numCanon_ok hid (tail := '\n' :: (B ++ (kwEndPrmText ++ tail))) numStop_lf (p + kwPrmText.length + 1) []
    have h4 := nls_ok (rest := B ++ (kwEndPrmText ++ tail)) (starts_block hgood hendStarts)
      (p + kwPrmText.length + 1 + (numText id).length) [numPair id]
    have h5 := plus_block hendStarts hend (textLine l) (ls.map textLine)
      (p + kwPrmText.length + 1 + (numText id).length + 1) [numPair id] hgood
    have h6 := insens_lit_ok (a := false) kwEndPrmText tail
      (p + kwPrmText.length + 1 + (numText id).length + 1 + B.length) (blockOut ((l :: ls).map textLine) [numPair id])
    rw [mk_pos (show p + kwPrmText.length + 1 + (numText id).length + 1 + B.length + kwEndPrmText.length =
      p + (prmTextText id (l :: ls)).length by
        simp only [prmTextText, List.length_append, List.length_cons, B]; omega)] at h6
    have := Ev.seq h1 (sk_none (show NoSkipChar '=' by unfold NoSkipChar; decide))
      (Ev.seq h2 (sk_none (numCanon_head hid _))
        (Ev.seq h3 (sk_lf _ _ _)
          (Ev.seq h4 (sk_none (starts_block hgood hendStarts).noSkip)
            (Ev.seq h5 (sk_none hendStarts.noSkip) h6))))
    simpa only [prmTextText, List.append_assoc, List.cons_append, B, List.map_cons] using this
  have := Ev.call_node (q := .prm_text) (ty := .normal) (st := mk (prmTextText id (l :: ls) ++ tail) p o) rfl (by decide) body
  have hch : (blockOut ((l :: ls).map textLine) [numPair id]).reverse =
      numPair id :: (l :: ls).map fun l => valueLinePair .prm_text_value kwText l.1 l.2 := by
    rw [blockOut_eq]
    simp only [List.reverse_append, List.reverse_reverse, List.reverse_cons, List.reverse_nil, List.nil_append,
      List.singleton_append]
    rw [show (l :: ls).map textLine = (l :: ls).map (valueBlockLine .prm_text_value kwText) from rfl, flatMap_valueLines]
  simpa only [mk, take_token (prmTextText id (l :: ls)) tail p, hch, prmTextPair] using this

def prmTextItem (t : PrmTextStmt) : Item := ⟨prmTextText t.id t.values, prmTextPair t.id t.values, .prmText t⟩

theorem prmTextItem_good (t : PrmTextStmt) (h : PrmTextCanon t) : (prmTextItem t).Good where
  head := ⟨'P', _, rfl, by decide⟩
  parses := by
    intro rest p o
    obtain ⟨hid, hne, hls⟩ := h
    obtain ⟨id, values⟩ := t
    cases values with
    | nil => exact (hne rfl).elim
    | cons l ls =>
      refine Ev.call_silent rfl ?_
      show Ev false (.choice (.call .prm_text) _) _ _
      exact Ev.choice_l (prmText_ok id hid l ls hls ('\n' :: rest) p o)
  ast := by
    obtain ⟨hid, _, hls⟩ := h
    obtain ⟨id, values⟩ := t
    have := valueLines_pairs .prm_text_value kwText values hls
    simp [prmTextItem, prmTextPair, stmt?, Pair.rule, Pair.children, numTok_numPair hid, this]

/-! ### `Unit_Diag_Area` -/

def kwValue : Str := ['V', 'a', 'l', 'u', 'e']
def kwArea : Str := ['U', 'n', 'i', 't', '_', 'D', 'i', 'a', 'g', '_', 'A', 'r', 'e', 'a']
def kwAreaEnd : Str := ['U', 'n', 'i', 't', '_', 'D', 'i', 'a', 'g', '_', 'A', 'r', 'e', 'a', '_', 'E', 'n', 'd']

def valueLineOf (l : NumTok × Str) : BlockLine := valueBlockLine .unit_diag_area_value kwValue l

def areaText (a : AreaStmt) : Str :=
  kwArea ++ '=' :: (numText a.first ++ '-' :: (numText a.last ++ '\n' :: (blockText (a.values.map valueLineOf) ++ kwAreaEnd)))

def areaPair (a : AreaStmt) : Pair :=
  .node .unit_diag_area (areaText a)
    (numPair a.first :: numPair a.last :: a.values.map fun l => valueLinePair .unit_diag_area_value kwValue l.1 l.2)

def AreaCanon (a : AreaStmt) : Prop :=
  NumCanon a.first ∧ NumCanon a.last ∧ a.values ≠ [] ∧ ∀ l ∈ a.values, LineOk l

theorem numStop_minus : NumStop '-' := by decide

theorem area_ok (first last : NumTok) (hf : NumCanon first) (hl : NumCanon last) (l : NumTok × Str) (ls : List (NumTok × Str))
    (hls : ∀ m ∈ l :: ls, LineOk m) (tail : Str) (p : Nat) (o : List Pair) :
    Ev false (.call .unit_diag_area) (mk (areaText ⟨first, last, l :: ls⟩ ++ tail) p o)
      (.ok (mk tail (p + (areaText ⟨first, last, l :: ls⟩).length) (areaPair ⟨first, last, l :: ls⟩ :: o))) := by
  have hq : ruleDef .unit_diag_area_value = (.normal, valueLineBody kwValue) := rfl
  have hgood : ∀ m ∈ (l :: ls).map valueLineOf, m.Good (.seq (.call .unit_diag_area_value) (.plus .newline)) := by
    intro m hm
    obtain ⟨k, hk, rfl⟩ := List.mem_map.mp hm
    exact valueBlockLine_good .unit_diag_area_value kwValue hq ⟨'V', _, rfl, by decide⟩ k (hls k hk)
  have hendStarts : Starts (kwAreaEnd ++ tail) := ⟨'U', _, rfl, by decide⟩
  have hend := valueLine_end .unit_diag_area_value kwValue hq kwAreaEnd tail (by decide)
  have body : Ev false (ruleDef .unit_diag_area).2 (mk (areaText ⟨first, last, l :: ls⟩ ++ tail) p [])
      (.ok (mk tail (p + (areaText ⟨first, last, l :: ls⟩).length)
        (blockOut ((l :: ls).map valueLineOf) [numPair last, numPair first]))) := by
    show Ev false (.seq (.insens (kwArea.map Char.toLower)) (.seq (.str ['=']) (.seq (.call .number) (.seq (.str ['-'])
      (.seq (.call .number) (.seq (.plus .newline)
      (.seq (.plus (.seq (.call .unit_diag_area_value) (.plus .newline))) (.insens (kwAreaEnd.map Char.toLower))))))))) _ _
    let B := blockText ((l :: ls).map valueLineOf)
    have h1 := insens_lit_ok (a := false) kwArea
      ('=' :: (numText first ++ '-' :: (numText last ++ '\n' :: (B ++ (kwAreaEnd ++ tail))))) p []
    have h2 : Ev false (.str ['=']) (mk ('=' :: (numText first ++ '-' :: (numText last ++ '\n' :: (B ++ (kwAreaEnd ++ tail))))) (p + kwArea.length) [])
        (.ok (mk (numText first ++ '-' :: (numText last ++ '\n' :: (B ++ (kwAreaEnd ++ tail)))) (p + kwArea.length + 1) [])) :=
      Ev.str_ok (l := ['=']) matchStr_single_some
    have h3 := numCanon_ok hf (tail := '-' :: (numText last ++ '\n' :: (B ++ (kwAreaEnd ++ tail)))) numStop_minus (p + kwArea.length + 1) []
    have h3b : Ev false (.str ['-']) (mk ('-' :: (numText last ++ '\n' :: (B ++ (kwAreaEnd ++ tail)))) (p + kwArea.length + 1 + (numText first).length) [numPair first])
        (.ok (mk (numText last ++ '\n' :: (B ++ (kwAreaEnd ++ tail))) (p + kwArea.length + 1 + (numText first).length + 1) [numPair first])) :=
      Ev.str_ok (l := ['-']) matchStr_single_some
    have h3c := numCanon_ok hl (tail := '\n' :: (B ++ (kwAreaEnd ++ tail))) numStop_lf
      (p + kwArea.length + 1 + (numText first).length + 1) [numPair first]
    have h4 := nls_ok (rest := B ++ (kwAreaEnd ++ tail)) (starts_block hgood hendStarts)
      (p + kwArea.length + 1 + (numText first).length + 1 + (numText last).length) [numPair last, numPair first]
    have h5 := plus_block hendStarts hend (valueLineOf l) (ls.map valueLineOf)
      (p + kwArea.length + 1 + (numText first).length + 1 + (numText last).length + 1) [numPair last, numPair first] hgood
    have h6 := insens_lit_ok (a := false) kwAreaEnd tail
      (p + kwArea.length + 1 + (numText first).length + 1 + (numText last).length + 1 + B.length)
      (blockOut ((l :: ls).map valueLineOf) [numPair last, numPair first])
    rw [mk_pos (show p + kwArea.length + 1 + (numText first).length + 1 + (numText last).length + 1 + B.length + kwAreaEnd.length =
      p + (areaText ⟨first, last, l :: ls⟩).length by
        simp only [areaText, List.length_append, List.length_cons, B]; omega)] at h6
    have := Ev.seq h1 (sk_none (show NoSkipChar '=' by unfold NoSkipChar; decide))
      (Ev.seq h2 (sk_none (numCanon_head hf _))
        (Ev.seq h3 (sk_none (show NoSkipChar '-' by unfold NoSkipChar; decide))
          (Ev.seq h3b (sk_none (numCanon_head hl _))
            (Ev.seq h3c (sk_lf _ _ _)
              (Ev.seq h4 (sk_none (starts_block hgood hendStarts).noSkip)
                (Ev.seq h5 (sk_none hendStarts.noSkip) h6))))))
    simpa only [areaText, List.append_assoc, List.cons_append, B, List.map_cons] using this
  have := Ev.call_node (q := .unit_diag_area) (ty := .normal) (st := mk (areaText ⟨first, last, l :: ls⟩ ++ tail) p o) rfl (by decide) body
  have hch : (blockOut ((l :: ls).map valueLineOf) [numPair last, numPair first]).reverse =
      numPair first :: numPair last :: (l :: ls).map fun l => valueLinePair .unit_diag_area_value kwValue l.1 l.2 := by
    rw [blockOut_eq]
    simp only [List.reverse_append, List.reverse_reverse, List.reverse_cons, List.reverse_nil, List.nil_append,
      List.singleton_append, List.cons_append]
    rw [show (l :: ls).map valueLineOf = (l :: ls).map (valueBlockLine .unit_diag_area_value kwValue) from rfl, flatMap_valueLines]
  simpa only [mk, take_token (areaText ⟨first, last, l :: ls⟩) tail p, hch, areaPair] using this

def areaItem (a : AreaStmt) : Item := ⟨areaText a, areaPair a, .area a⟩

theorem areaItem_good (a : AreaStmt) (h : AreaCanon a) : (areaItem a).Good where
  head := ⟨'U', _, rfl, by decide⟩
  parses := by
    intro rest p o
    obtain ⟨hf, hl, hne, hls⟩ := h
    obtain ⟨first, last, values⟩ := a
    cases values with
    | nil => exact (hne rfl).elim
    | cons l ls =>
      have hm : ∀ kw, clash kw kwArea = true → matchInsens kw (areaText ⟨first, last, l :: ls⟩ ++ '\n' :: rest) = none := by
        intro kw hc
        have := matchInsens_clash ('=' :: (numText first ++ '-' :: (numText last ++ '\n' ::
          (blockText ((l :: ls).map valueLineOf) ++ kwAreaEnd))) ++ '\n' :: rest) hc
        simpa only [areaText, List.append_assoc, List.cons_append] using this
      refine Ev.call_silent rfl ?_
      show Ev false (.choice (.call .prm_text) (.choice (.call .ext_user_prm_data) (.choice (.call .module)
        (.choice (.call .slot_definition) (.choice (.call .unit_diag_type) (.choice (.call .unit_diag_area) _)))))) _ _
      refine Ev.choice_r (block_fail rfl (hm _ (by decide)) p o) ?_
      refine Ev.choice_r (block_fail rfl (hm _ (by decide)) p o) ?_
      refine Ev.choice_r (block_fail rfl (hm _ (by decide)) p o) ?_
      refine Ev.choice_r (block_fail rfl (hm _ (by decide)) p o) ?_
      refine Ev.choice_r (block_fail rfl (hm _ (by decide)) p o) ?_
      exact Ev.choice_l (area_ok first last hf hl l ls hls ('\n' :: rest) p o)
  ast := by
    obtain ⟨hf, hl, _, hls⟩ := h
    obtain ⟨first, last, values⟩ := a
    have := valueLines_pairs .unit_diag_area_value kwValue values hls
    simp [areaItem, areaPair, stmt?, Pair.rule, Pair.children, numTok_numPair hf, numTok_numPair hl, this]

end PV.Gsd.Peg
