/-
Cold start of two stations, phases (a2)–(a3) until the claimant polls the listener's address: the claimant forms
its ring alone (second claim token, GAP requests), the listener overhears it with arbitrary lag.  Helper lemmas.
-/
import ProfiVerif.Lemmas.ListenNet

namespace PV
open StationGap TokenRing

/-- The lone transmitter `x` sends at `q`: the listener condition of `j` carries over to the extended log. -/
theorem LLOk.send {cfg : Cfg} {G aL me x : Nat} {b b' : Bus} {H H' : Int} {j : Nat} {st : NetStation} {r0 : TokenRing}
    {hd : List Telegram} (h : LLOk cfg G aL b H j st r0 hd) (hlog : LoneLog cfg aL me x b) (hr : 0 < cfg.rate) (haL : aL < 126)
    (q : Int) (bytes : Bytes) (hbl : 0 < bytes.length) (hq2 : q ≤ H) (hsj : b.seen.getD j 0 ≤ q)
    (hP : q ≤ b.seen.getD j 0 + (cfg.P : Nat)) (hP100 : cfg.P ≤ 100000)
    (htx' : b'.txs = (b.txs ++ [({ start := q, sender := x, bytes := bytes, dropped := false } : Transmission)]).filter
      fun t => decide (b.txEnd t + 100000 > q))
    (hseen : b'.seen = b.seen) : LLOk cfg G aL b' H' j st r0 hd := by
  obtain ⟨hon, hal, hinv, hson, hne, htto, hring, dn, rs, l, coll, h1, h2, h4, h5, h6, h7, h8, hst, h10⟩ := h
  have hc := hlog.chained
  rw [h1] at hc
  have hcrs : CChained cfg rs := (List.pairwise_append.1 hc).2.1
  have hposrs : ∀ t ∈ rs, 0 < t.bytes.length := fun t ht =>
    (hlog.wire haL t (by rw [h1]; exact List.mem_append_right _ ht)).2.2.1
  have hafter := rs_end_after cfg rs _ hcrs hposrs h6
  have hc0 := cfg.ce_pos hr 0
  have htxe : ∀ t, b.txEnd t = cEnd cfg t := by
    intro t; unfold Bus.txEnd cEnd; rw [byteEnd_cfg b cfg hlog.rate]
  have hkeep : rs.filter (fun t => decide (b.txEnd t + 100000 > q)) = rs := by
    rw [List.filter_eq_self]
    intro t ht
    have := hafter t ht
    rw [htxe]
    simp only [decide_eq_true_eq]
    omega
  have hkeep' : decide (b.txEnd ({ start := q, sender := x, bytes := bytes, dropped := false } : Transmission) + 100000 > q) = true := by
    rw [htxe]
    unfold cEnd
    simp only [decide_eq_true_eq]
    omega
  have hv0 : cvis cfg ({ start := q, sender := x, bytes := bytes, dropped := false } : Transmission) (b.seen.getD j 0) = 0 := by
    apply cvis_zero
    simp only
    omega
  refine ⟨hon, hal, hinv, hson, hne, htto, hring, dn.filter (fun t => decide (b.txEnd t + 100000 > q)),
    rs ++ [{ start := q, sender := x, bytes := bytes, dropped := false }], l, coll, ?_, ?_⟩
  · rw [htx', h1, List.filter_append, List.filter_append, hkeep]
    simp only [List.filter_cons, hkeep', if_true, List.filter_nil, List.append_assoc]
  rw [hseen]
  have harr : arrived cfg (rs ++ [({ start := q, sender := x, bytes := bytes, dropped := false } : Transmission)]) (b.seen.getD j 0) =
      arrived cfg rs (b.seen.getD j 0) := by
    rw [arrived_append]
    unfold arrived
    simp only [List.map_cons, List.map_nil, List.flatten_cons, List.flatten_nil, hv0, List.take_zero, List.append_nil]
  refine ⟨fun o ho => h2 o (List.mem_filter.1 ho).1, by rw [harr]; exact h4, by rw [harr]; exact h5, ?_, h7, h8, hst, ?_⟩
  · intro t rest hrs
    cases rs with
    | nil =>
      simp only [List.nil_append, List.cons.injEq] at hrs
      obtain ⟨rfl, -⟩ := hrs
      rw [hv0]; exact hbl
    | cons t0 r0' =>
      simp only [List.cons_append, List.cons.injEq] at hrs
      obtain ⟨rfl, -⟩ := hrs
      exact h6 _ _ rfl
  · have hn : nextArr cfg H' (rs ++ [({ start := q, sender := x, bytes := bytes, dropped := false } : Transmission)]) (b.seen.getD j 0) ≤
        nextArr cfg H rs (b.seen.getD j 0) := by
      unfold nextArr
      cases rs with
      | nil => simp only [List.nil_append, hv0]; omega
      | cons t r => exact Int.le_refl _
    omega

/-- A smaller horizon keeps the listener condition. -/
theorem LLOk.mono {cfg : Cfg} {G aL : Nat} {b : Bus} {H H' : Int} {j : Nat} {st : NetStation} {r0 : TokenRing}
    {hd : List Telegram} (h : LLOk cfg G aL b H j st r0 hd) (hH : H' ≤ H) : LLOk cfg G aL b H' j st r0 hd := by
  obtain ⟨hon, hal, hinv, hson, hne, htto, hring, dn, rs, l, coll, h1, h2, h4, h5, h6, h7, h8, hst, h10⟩ := h
  refine ⟨hon, hal, hinv, hson, hne, htto, hring, dn, rs, l, coll, h1, h2, h4, h5, h6, h7, h8, hst, ?_⟩
  have : nextArr cfg H' rs (b.seen.getD j 0) ≤ nextArr cfg H rs (b.seen.getD j 0) := by
    unfold nextArr
    cases rs with
    | nil => simp only; omega
    | cons t r => exact Int.le_refl _
  omega

/-- Another station was polled: only its `seen` entry changed. -/
theorem LLOk.other {cfg : Cfg} {G aL : Nat} {b : Bus} {H : Int} {j : Nat} {st : NetStation} {r0 : TokenRing}
    {hd : List Telegram} (h : LLOk cfg G aL b H j st r0 hd) (i : Nat) (now : Int) (hij : i ≠ j) :
    LLOk cfg G aL { b with seen := b.seen.set i now } H j st r0 hd := by
  obtain ⟨hon, hal, hinv, hson, hne, htto, hring, dn, rs, l, coll, h1, h2, h4, h5, h6, h7, h8, hst, h10⟩ := h
  have e : ({ b with seen := b.seen.set i now } : Bus).seen.getD j 0 = b.seen.getD j 0 := seen_set_other b i j now hij
  refine ⟨hon, hal, hinv, hson, hne, htto, hring, dn, rs, l, coll, h1, ?_⟩
  rw [e]
  exact ⟨h2, h4, h5, h6, h7, h8, hst, h10⟩

/-- The bus after a regular poll. -/
theorem Net.poll_bus (n : Net) (i : Nat) (now : Int) (n' : Net) (inc : Bytes) (c : Ctx)
    (h : n.poll i now = (n', inc, some (.ok c))) :
    n'.bus = (match c.tx with
      | some b => (n.bus.deliver i now).1.send i now b
      | none => (n.bus.deliver i now).1) ∧
    ∃ st, n.stations[i]? = some st ∧ n'.stations = n.stations.set i (upSt st c) ∧
      st.s.poll st.apps now ((n.bus.deliver i now).1.transmitting i now)
        (if st.online then st.rx ++ (n.bus.deliver i now).2 else st.rx) = .ok c := by
  unfold Net.poll at h
  rcases hd : n.bus.deliver i now with ⟨bus, incoming⟩
  rw [hd] at h
  simp only at h
  cases hs : n.stations[i]? with
  | none => rw [hs] at h; simp only at h; cases h
  | some st =>
    rw [hs] at h
    simp only at h
    split at h
    · cases h
    · split at h
      · rename_i m hr
        simp only [Prod.mk.injEq, Option.some.injEq] at h
        obtain ⟨-, -, h3⟩ := h
        rw [hr] at h3; cases h3
      · rename_i c0 hr
        simp only [Prod.mk.injEq, Option.some.injEq] at h
        obtain ⟨h1, -, h3⟩ := h
        rw [hr] at h3
        cases h3
        rw [← h1]
        exact ⟨rfl, st, rfl, rfl, hr⟩

/-- **Claimant and listener** (`x` forms its ring alone in stage `stage`, `y` listens): the claimant's side is
`Solo`, the log is a `LoneLog` not addressing the listener, the listener satisfies `LLOk` with the horizon
`Φ = max(last poll of x, stamp + wait) + slack`, which lies at most `G` behind the end of the last transmission. -/
structure Duo (cfg : Cfg) (G : Nat) (n : Net) (x y : Nat) (stx sty : NetStation) (l : Int) (stage : SStage)
    (r0 : TokenRing) (hd : List Telegram) (tl : Int) : Prop where
  solo : Solo cfg n x stx l
  stg : stage.ok stx.s
  view : RingView [stx.s.p.address] stx.s.p.address stx.s.ring
  lone : LoneLog cfg stx.s.p.address sty.s.p.address x n.bus
  gy : n.stations[y]? = some sty
  yx : y ≠ x
  ys : y < n.bus.seen.length
  yl : y < n.stations.length
  lis : LLOk cfg G stx.s.p.address n.bus
    (max (n.bus.seen.getD x 0) (l + ((stage.wait cfg : Nat) : Int)) + ((stage.slack cfg : Nat) : Int)) y sty r0 hd
  hor : ∀ t, n.bus.txs.getLast? = some t →
    max (n.bus.seen.getD x 0) (l + ((stage.wait cfg : Nat) : Int)) + ((stage.slack cfg : Nat) : Int) ≤ cEnd cfg t + (G : Nat)
  starts : ∀ t ∈ n.bus.txs, t.start ≤ tl
  seens : n.bus.seen.getD x 0 ≤ tl ∧ n.bus.seen.getD y 0 ≤ tl

theorem SStage.slack_ge (cfg : Cfg) (stage : SStage) : cfg.P ≤ stage.slack cfg := by
  cases stage <;> simp only [SStage.slack] <;> omega

theorem SStage.wait_slack_le (cfg : Cfg) (hok : cfg.Ok) (stage : SStage) :
    stage.wait cfg + stage.slack cfg ≤ cfg.slot + 3 * cfg.P := by
  have := hok.margin
  cases stage <;> simp only [SStage.wait, SStage.slack] <;> omega

theorem Duo.aL_lt {cfg : Cfg} {G : Nat} {n : Net} {x y : Nat} {stx sty : NetStation} {l : Int} {stage : SStage}
    {r0 : TokenRing} {hd : List Telegram} {tl : Int} (d : Duo cfg G n x y stx sty l stage r0 hd tl) :
    stx.s.p.address < 126 := by
  have := d.solo.inv.addr; have := d.solo.inv.hsa; omega

/-- **The listener is polled**: it consumes what has arrived, transmits nothing; the invariant goes on. -/
theorem duo_listen {cfg : Cfg} {G : Nat} {n : Net} {x y : Nat} {stx sty : NetStation} {l : Int} {stage : SStage}
    {r0 : TokenRing} {hd : List Telegram} {tl : Int} (d : Duo cfg G n x y stx sty l stage r0 hd tl) (hok : cfg.Ok)
    (now : Int) (htl : tl ≤ now) (hown : n.bus.seen.getD y 0 < now) (hgx : now ≤ n.bus.seen.getD x 0 + (cfg.P : Nat)) :
    ∃ n' inc c sty' hd', n.poll y now = (n', inc, some (.ok c)) ∧ c.tx = none ∧
      Duo cfg G n' x y stx sty' l stage r0 hd' now := by
  have hsl := SStage.slack_ge cfg stage
  obtain ⟨inc, c, hd', hdv, hpoll, htx, hp, hL'⟩ := llisten_step d.lis d.lone hok.rate d.aL_lt d.yx d.ys now hown
    (by omega) (fun t ht => Int.le_trans (d.starts t ht) htl) d.hor
  obtain ⟨hon, hal, -⟩ := d.lis
  have hpoll' : sty.s.poll sty.apps now (Bus.transmitting { n.bus with seen := n.bus.seen.set y now } y now) (sty.rx ++ inc) = .ok c := by
    rw [transmitting_seen]; exact hpoll
  have hpe := Net.poll_eq n y now sty _ inc c d.gy hal hon hdv hpoll'
  rw [htx] at hpe
  have hxy : x ≠ y := Ne.symm d.yx
  have hsx : ({ n.bus with seen := n.bus.seen.set y now } : Bus).seen.getD x 0 = n.bus.seen.getD x 0 :=
    seen_set_other n.bus y x now d.yx
  refine ⟨_, inc, c, upSt sty c, hd', hpe, htx, ?_⟩
  have hs := d.solo
  refine ⟨⟨hs.rate, hs.drops, hs.own, hs.ends, by simp only [List.length_set]; exact hs.xl,
      by simp only [List.length_set]; exact hs.xs, by simp only; rw [List.getElem?_set_ne d.yx]; exact hs.gx,
      hs.online, hs.alive, hs.inv, hs.son, hs.rx, hs.stamp, hs.prate, hs.pslot⟩,
    d.stg, d.view, ?_, List.getElem?_set_self d.yl, d.yx, by simp only [List.length_set]; exact d.ys,
    by simp only [List.length_set]; exact d.yl, ?_, ?_, fun t ht => Int.le_trans (d.starts t ht) htl, ?_⟩
  · have : (upSt sty c).s.p.address = sty.s.p.address := by show c.s.p.address = _; rw [hp]
    rw [this]
    exact ⟨d.lone.rate, d.lone.corrupt, d.lone.chained, d.lone.live, d.lone.own, d.lone.kinds⟩
  · simp only; rw [hsx]; exact hL'
  · simp only; rw [hsx]; exact d.hor
  · simp only
    rw [hsx, seen_set_self _ _ _ d.ys]
    exact ⟨Int.le_trans d.seens.1 htl, Int.le_refl _⟩

/-- Outcome of a poll of the claimant while the listener listens: the one-station ring stands; or the claimant has
just sent its GAP request to the listener's address; or the invariant goes on in the next stage. -/
def DuoOut (cfg : Cfg) (G : Nat) (x y : Nat) (stx sty : NetStation) (r0 : TokenRing) (hd : List Telegram) (B : Int)
    (n' : Net) (c : Ctx) (now : Int) : Prop :=
  (c.s.st = .useToken ⟨now, none⟩ false ∧ c.tx = some (selfToken stx.s.p.address)) ∨
  (c.tx = some (statusRequestBytes sty.s.p.address stx.s.p.address)) ∨
  (∃ (stage' : SStage) (l' : Int), Duo cfg G n' x y (upSt stx c) sty l' stage' r0 hd now ∧
    (c.tx = none ∨ c.tx = some (selfToken stx.s.p.address) ∨
      ∃ a, a ≠ stx.s.p.address ∧ a ≠ sty.s.p.address ∧ c.tx = some (statusRequestBytes a stx.s.p.address)) ∧
    max now (l' + ((stage'.wait cfg : Nat) : Int)) + ((stage'.rest cfg stx.s.p.address stx.s.p.hsa : Nat) : Int) ≤ B)

/-- **The claimant is polled** while the listener listens. -/
theorem duo_claimant {cfg : Cfg} {G : Nat} {n : Net} {x y : Nat} {stx sty : NetStation} {l : Int} {stage : SStage}
    {r0 : TokenRing} {hd : List Telegram} {tl : Int} (d : Duo cfg G n x y stx sty l stage r0 hd tl) (hok : cfg.Ok)
    (hP100 : cfg.P ≤ 100000) (hG : cfg.slot + 3 * cfg.P ≤ G) (B : Int)
    (hB : max (n.bus.seen.getD x 0) (l + ((stage.wait cfg : Nat) : Int)) +
      ((stage.rest cfg stx.s.p.address stx.s.p.hsa : Nat) : Int) ≤ B)
    (now : Int) (htl : tl ≤ now) (hown : n.bus.seen.getD x 0 < now) (hgx : now ≤ n.bus.seen.getD x 0 + (cfg.P : Nat))
    (hgy : now ≤ n.bus.seen.getD y 0 + (cfg.P : Nat)) :
    ∃ n' c, n.poll x now = (n', [], some (.ok c)) ∧ now ≤ B ∧ DuoOut cfg G x y stx sty r0 hd B n' c now := by
  have hr := hok.rate
  have hs := d.solo
  have hsl := SStage.slack_ge cfg stage
  have hrg := SStage.rest_ge cfg stx.s.p.address stx.s.p.hsa stage
  obtain ⟨n', c, hp, hseen, hnow, hout⟩ := form_step hs hok stage d.stg d.view B now hown hgx hB
  refine ⟨n', c, hp, by omega, ?_⟩
  obtain ⟨hbus, st0, hst0, hset, hpoll0⟩ := Net.poll_bus n x now n' [] c hp
  rw [hs.gx] at hst0
  cases hst0
  have hdel : (n.bus.deliver x now).1 = { n.bus with seen := n.bus.seen.set x now } := by
    rw [Bus.deliver_allOwn n.bus x now hs.own]
  have hdel2 : (n.bus.deliver x now).2 = [] := by rw [Bus.deliver_allOwn n.bus x now hs.own]
  rw [hdel, hdel2] at hpoll0
  rw [hdel] at hbus
  have hxy : x ≠ y := Ne.symm d.yx
  have hsy : ({ n.bus with seen := n.bus.seen.set x now } : Bus).seen.getD y 0 = n.bus.seen.getD y 0 :=
    seen_set_other n.bus x y now hxy
  unfold FormOut at hout
  rcases hout with ⟨a1, a2, -⟩ | ⟨stage', l', hS, hs', hv', hp', htxi, hB', hΦ, hnl⟩
  · exact .inl ⟨a1, a2⟩
  have haddr : (upSt stx c).s.p.address = stx.s.p.address := by show c.s.p.address = _; rw [hp']
  have hhsa : (upSt stx c).s.p.hsa = stx.s.p.hsa := by show c.s.p.hsa = _; rw [hp']
  have hgy' : n'.stations[y]? = some sty := by rw [hset, List.getElem?_set_ne hxy]; exact d.gy
  have hlen' : n'.stations.length = n.stations.length := by rw [hset, List.length_set]
  by_cases htx : c.tx = none
  · -- nothing transmitted
    obtain ⟨hl', hΦ'⟩ := hΦ htx
    rw [htx] at hbus
    simp only at hbus
    refine .inr (.inr ⟨stage', l', ?_, .inl htx, by rw [haddr, hhsa] at *; exact hB'⟩)
    refine ⟨hS, hs', by rw [haddr]; exact hv', ?_, hgy', d.yx, by rw [hbus]; simp only [List.length_set]; exact d.ys,
      by rw [hlen']; exact d.yl, ?_, ?_, ?_, ?_⟩
    · rw [haddr, hbus]
      exact ⟨d.lone.rate, d.lone.corrupt, d.lone.chained, d.lone.live, d.lone.own, d.lone.kinds⟩
    · rw [haddr, hseen]
      have h1 := d.lis.other x now hxy
      rw [hbus]
      exact h1.mono hΦ'
    · rw [hseen, hbus]
      intro t ht
      exact Int.le_trans hΦ' (d.hor t ht)
    · rw [hbus]; exact fun t ht => Int.le_trans (d.starts t ht) htl
    · rw [hseen, hbus, hsy]
      exact ⟨Int.le_refl _, Int.le_trans d.seens.2 htl⟩
  · -- a transmission
    have hnl' := hnl htx
    obtain ⟨b, hb⟩ : ∃ b, c.tx = some b := by
      cases hc : c.tx with
      | none => exact absurd hc htx
      | some b => exact ⟨b, rfl⟩
    by_cases hpolled : b = statusRequestBytes sty.s.p.address stx.s.p.address
    · exact .inr (.inl (by rw [hb, hpolled]))
    rw [hb] at hbus
    simp only at hbus
    have hlt : l + ((stx.s.p.bits 33 : Nat) : Int) < now := by
      have := (pollInner_tx { s := stx.s, apps := stx.apps, rx := _ } now _ c hpoll0 rfl htx).2.2 l hs.stamp
      exact this
    have hbkind : b = tokenBytes stx.s.p.address stx.s.p.address ∨
        ∃ g, g < 126 ∧ g ≠ sty.s.p.address ∧ b = statusRequestBytes g stx.s.p.address := by
      rcases htxi with h0 | h0 | ⟨a, h1, h2, h3⟩
      · exact absurd h0 htx
      · rw [hb] at h0; exact .inl (Option.some.inj h0)
      · rw [hb] at h3
        have hb' := Option.some.inj h3
        refine .inr ⟨a, by have := hs.inv.hsa; omega, ?_, hb'⟩
        intro e; rw [e] at hb'; exact hpolled hb'
    have hblen : 0 < b.length := by
      rcases hbkind with e | ⟨g, -, -, e⟩
      · rw [e]; show 0 < 3; omega
      · rw [e, statusRequestBytes_length]; omega
    have hrate : 0 < n.bus.rate := by rw [hs.rate]; exact hr
    obtain ⟨old', e1, e2, e3, e4, e5, e6⟩ := Bus.send_txs { n.bus with seen := n.bus.seen.set x now } x now b hs.drops hrate
    have hspec := Bus.send_spec { n.bus with seen := n.bus.seen.set x now } x now b hs.drops
    have hends : ∀ o ∈ n.bus.txs, cEnd cfg o ≤ now := fun o ho => by have := hs.ends o ho; omega
    have hsub : old'.Sublist n.bus.txs := by
      have : (Bus.send { n.bus with seen := n.bus.seen.set x now } x now b).txs =
          (n.bus.txs.filter fun t => decide (n.bus.txEnd t + 100000 > now)) ++
            [({ start := now, sender := x, bytes := b, dropped := false } : Transmission)] := by
        rw [hspec]
        simp only [List.filter_append, List.filter_cons, List.filter_nil]
        have : decide (Bus.txEnd { n.bus with seen := n.bus.seen.set x now }
            ({ start := now, sender := x, bytes := b, dropped := false } : Transmission) + 100000 > now) = true := by
          have := Bus.byteEnd_pos n.bus hrate (b.length - 1)
          unfold Bus.txEnd
          simp only [decide_eq_true_eq]
          show now + n.bus.byteEnd (b.length - 1) + 100000 > now
          omega
        rw [if_pos this]
        rfl
      rw [e1] at this
      have hh := List.append_inj_left' this rfl
      rw [hh]
      exact List.filter_sublist
    -- the stamp of the new record is the predicted end of the new transmission
    have hmark : l' = now + ((bitsToTime cfg.rate (11 * b.length) : Nat) : Int) := by
      have hpi : pollInner { s := stx.s, apps := stx.apps, rx := (if stx.online = true then stx.rx ++ [] else stx.rx) } now
          (Bus.transmitting { n.bus with seen := n.bus.seen.set x now } x now) = .ok c := hpoll0
      have hm := pollInner_marks _ now _ c b hpi rfl hb
      unfold MarkK at hm
      have hst' : c.s.lastBusActivity = some l' := hS.stamp
      rw [hm] at hst'
      have := Option.some.inj hst'
      rw [← this]
      unfold Params.bits
      rw [hp', hs.prate]
    have hte := tEnd_cEnd cfg hr { start := now, sender := x, bytes := b, dropped := false } hblen
    unfold tEnd cEnd at hte
    simp only at hte
    have hws := SStage.wait_slack_le cfg hok stage'
    refine .inr (.inr ⟨stage', l', ?_, ?_, by rw [haddr, hhsa] at *; exact hB'⟩)
    · refine ⟨hS, hs', by rw [haddr]; exact hv', ?_, hgy', d.yx, by rw [hbus, e4]; simp only [List.length_set]; exact d.ys,
        by rw [hlen']; exact d.yl, ?_, ?_, ?_, ?_⟩
      · rw [haddr, hbus]
        refine ⟨e3.trans d.lone.rate, e5.trans d.lone.corrupt, ?_, ?_, ?_, ?_⟩
        · rw [e1]
          unfold CChained
          rw [List.pairwise_append]
          refine ⟨List.Pairwise.sublist hsub d.lone.chained, List.pairwise_singleton _ _, ?_⟩
          intro o ho t ht
          simp only [List.mem_singleton] at ht
          subst ht
          exact hends o (e2 o ho)
        · intro t ht
          rw [e1] at ht
          rcases List.mem_append.1 ht with ht | ht
          · exact d.lone.live t (e2 t ht)
          · simp only [List.mem_singleton] at ht; subst ht; rfl
        · intro t ht
          rw [e1] at ht
          rcases List.mem_append.1 ht with ht | ht
          · exact d.lone.own t (e2 t ht)
          · simp only [List.mem_singleton] at ht; subst ht; rfl
        · intro t ht
          rw [e1] at ht
          rcases List.mem_append.1 ht with ht | ht
          · exact d.lone.kinds t (e2 t ht)
          · simp only [List.mem_singleton] at ht; subst ht; exact hbkind
      · rw [haddr, hseen, hbus]
        have h1 := d.lis.other x now hxy
        have hl1 : LoneLog cfg stx.s.p.address sty.s.p.address x { n.bus with seen := n.bus.seen.set x now } :=
          ⟨d.lone.rate, d.lone.corrupt, d.lone.chained, d.lone.live, d.lone.own, d.lone.kinds⟩
        refine LLOk.send h1 hl1 hr d.aL_lt now b hblen (by omega) (by rw [hsy]; exact Int.le_trans d.seens.2 htl)
          (by rw [hsy]; exact hgy) hP100 ?_ e4
        rw [hspec]
      · rw [hseen, hbus, e1]
        intro t ht
        rw [List.getLast?_append] at ht
        simp only [List.getLast?_singleton, Option.some_or] at ht
        have := Option.some.inj ht
        subst this
        unfold cEnd
        simp only
        push_cast at hws
        omega
      · rw [hbus, e1]
        intro t ht
        rcases List.mem_append.1 ht with ht | ht
        · exact Int.le_trans (d.starts t (e2 t ht)) htl
        · simp only [List.mem_singleton] at ht; subst ht; exact Int.le_refl _
      · rw [hseen, hbus, e4, hsy]
        exact ⟨Int.le_refl _, Int.le_trans d.seens.2 htl⟩
    · rcases htxi with h0 | h0 | ⟨a, h1, h2, h3⟩
      · exact .inl h0
      · exact .inr (.inl h0)
      · refine .inr (.inr ⟨a, h1, ?_, h3⟩)
        intro e
        rw [hb, e] at h3
        exact hpolled (Option.some.inj h3)

end PV
