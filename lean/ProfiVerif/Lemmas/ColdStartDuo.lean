/-
Cold start of two stations, phases (a2)–(a3) until the claimant polls the listener's address: the claimant forms
its ring alone (second claim token, GAP requests), the listener overhears it with arbitrary lag.  Helper lemmas.
-/
import ProfiVerif.Lemmas.ListenNetR

namespace PV
open StationGap TokenRing

/-- The lone transmitter `x` sends at `q`: the listener condition of `j` carries over to the extended log. -/
theorem LLOk.send {cfg : Cfg} {G aL me x : Nat} {b b' : Bus} {H H' : Int} {j : Nat} {st : NetStation} {r0 : TokenRing}
    {hd : List Telegram} (h : LLOk cfg G aL b H j st r0 hd) (hlog : LoneLog cfg aL me x b) (hr : 0 < cfg.rate) (haL : aL < 126)
    (q : Int) (bytes : Bytes) (hbl : 0 < bytes.length) (hq2 : q ≤ H) (hsj : b.seen.getD j 0 ≤ q)
    (hP : q ≤ b.seen.getD j 0 + (cfg.P : Nat)) (hP100 : cfg.P ≤ 100000)
    (htx' : b'.txs = (b.txs ++ [({ start := q, sender := x, bytes := bytes, dropped := false } : Transmission)]).filter
      fun t => decide (b.txEnd t + 100000 > q))
    (hseen : b'.seen = b.seen) : LLOk cfg G aL b' H' j st r0 hd := by
  obtain ⟨hon, hal, hinv, hson, hne, htto, hring, dn, rs, l, coll, h1, h2, h4, h5, h6, h7, h8, hst, h10⟩ := h
  have hc := hlog.chained
  rw [h1] at hc
  have hcrs : CChained cfg rs := (List.pairwise_append.1 hc).2.1
  have hposrs : ∀ t ∈ rs, 0 < t.bytes.length := fun t ht =>
    (hlog.wire haL t (by rw [h1]; exact List.mem_append_right _ ht)).2.2.1
  have hafter := rs_end_after cfg rs _ hcrs hposrs h6
  have hc0 := cfg.ce_pos hr 0
  have htxe : ∀ t, b.txEnd t = cEnd cfg t := by
    intro t; unfold Bus.txEnd cEnd; rw [byteEnd_cfg b cfg hlog.rate]
  have hkeep : rs.filter (fun t => decide (b.txEnd t + 100000 > q)) = rs := by
    rw [List.filter_eq_self]
    intro t ht
    have := hafter t ht
    rw [htxe]
    simp only [decide_eq_true_eq]
    omega
  have hkeep' : decide (b.txEnd ({ start := q, sender := x, bytes := bytes, dropped := false } : Transmission) + 100000 > q) = true := by
    rw [htxe]
    unfold cEnd
    simp only [decide_eq_true_eq]
    omega
  have hv0 : cvis cfg ({ start := q, sender := x, bytes := bytes, dropped := false } : Transmission) (b.seen.getD j 0) = 0 := by
    apply cvis_zero
    simp only
    omega
  refine ⟨hon, hal, hinv, hson, hne, htto, hring, dn.filter (fun t => decide (b.txEnd t + 100000 > q)),
    rs ++ [{ start := q, sender := x, bytes := bytes, dropped := false }], l, coll, ?_, ?_⟩
  · rw [htx', h1, List.filter_append, List.filter_append, hkeep]
    simp only [List.filter_cons, hkeep', if_true, List.filter_nil, List.append_assoc]
  rw [hseen]
  have harr : arrived cfg (rs ++ [({ start := q, sender := x, bytes := bytes, dropped := false } : Transmission)]) (b.seen.getD j 0) =
      arrived cfg rs (b.seen.getD j 0) := by
    rw [arrived_append]
    unfold arrived
    simp only [List.map_cons, List.map_nil, List.flatten_cons, List.flatten_nil, hv0, List.take_zero, List.append_nil]
  refine ⟨fun o ho => h2 o (List.mem_filter.1 ho).1, by rw [harr]; exact h4, by rw [harr]; exact h5, ?_, h7, h8, hst, ?_⟩
  · intro t rest hrs
    cases rs with
    | nil =>
      simp only [List.nil_append, List.cons.injEq] at hrs
      obtain ⟨rfl, -⟩ := hrs
      rw [hv0]; exact hbl
    | cons t0 r0' =>
      simp only [List.cons_append, List.cons.injEq] at hrs
      obtain ⟨rfl, -⟩ := hrs
      exact h6 _ _ rfl
  · have hn : nextArr cfg H' (rs ++ [({ start := q, sender := x, bytes := bytes, dropped := false } : Transmission)]) (b.seen.getD j 0) ≤
        nextArr cfg H rs (b.seen.getD j 0) := by
      unfold nextArr
      cases rs with
      | nil => simp only [List.nil_append, hv0]; omega
      | cons t r => exact Int.le_refl _
    omega

/-- A smaller horizon keeps the listener condition. -/
theorem LLOk.mono {cfg : Cfg} {G aL : Nat} {b : Bus} {H H' : Int} {j : Nat} {st : NetStation} {r0 : TokenRing}
    {hd : List Telegram} (h : LLOk cfg G aL b H j st r0 hd) (hH : H' ≤ H) : LLOk cfg G aL b H' j st r0 hd := by
  obtain ⟨hon, hal, hinv, hson, hne, htto, hring, dn, rs, l, coll, h1, h2, h4, h5, h6, h7, h8, hst, h10⟩ := h
  refine ⟨hon, hal, hinv, hson, hne, htto, hring, dn, rs, l, coll, h1, h2, h4, h5, h6, h7, h8, hst, ?_⟩
  have : nextArr cfg H' rs (b.seen.getD j 0) ≤ nextArr cfg H rs (b.seen.getD j 0) := by
    unfold nextArr
    cases rs with
    | nil => simp only; omega
    | cons t r => exact Int.le_refl _
  omega

/-- Another station was polled: only its `seen` entry changed. -/
theorem LLOk.other {cfg : Cfg} {G aL : Nat} {b : Bus} {H : Int} {j : Nat} {st : NetStation} {r0 : TokenRing}
    {hd : List Telegram} (h : LLOk cfg G aL b H j st r0 hd) (i : Nat) (now : Int) (hij : i ≠ j) :
    LLOk cfg G aL { b with seen := b.seen.set i now } H j st r0 hd := by
  obtain ⟨hon, hal, hinv, hson, hne, htto, hring, dn, rs, l, coll, h1, h2, h4, h5, h6, h7, h8, hst, h10⟩ := h
  have e : ({ b with seen := b.seen.set i now } : Bus).seen.getD j 0 = b.seen.getD j 0 := seen_set_other b i j now hij
  refine ⟨hon, hal, hinv, hson, hne, htto, hring, dn, rs, l, coll, h1, ?_⟩
  rw [e]
  exact ⟨h2, h4, h5, h6, h7, h8, hst, h10⟩

/-- The bus after a regular poll. -/
theorem Net.poll_bus (n : Net) (i : Nat) (now : Int) (n' : Net) (inc : Bytes) (c : Ctx)
    (h : n.poll i now = (n', inc, some (.ok c))) :
    n'.bus = (match c.tx with
      | some b => (n.bus.deliver i now).1.send i now b
      | none => (n.bus.deliver i now).1) ∧
    ∃ st, n.stations[i]? = some st ∧ n'.stations = n.stations.set i (upSt st c) ∧
      st.s.poll st.apps now ((n.bus.deliver i now).1.transmitting i now)
        (if st.online then st.rx ++ (n.bus.deliver i now).2 else st.rx) = .ok c := by
  unfold Net.poll at h
  rcases hd : n.bus.deliver i now with ⟨bus, incoming⟩
  rw [hd] at h
  simp only at h
  cases hs : n.stations[i]? with
  | none => rw [hs] at h; simp only at h; cases h
  | some st =>
    rw [hs] at h
    simp only at h
    split at h
    · cases h
    · split at h
      · rename_i m hr
        simp only [Prod.mk.injEq, Option.some.injEq] at h
        obtain ⟨-, -, h3⟩ := h
        rw [hr] at h3; cases h3
      · rename_i c0 hr
        simp only [Prod.mk.injEq, Option.some.injEq] at h
        obtain ⟨h1, -, h3⟩ := h
        rw [hr] at h3
        cases h3
        rw [← h1]
        exact ⟨rfl, st, rfl, rfl, hr⟩

/-- **Claimant and listener** (`x` forms its ring alone in stage `stage`, `y` listens): the claimant's side is
`Solo`, the log is a `LoneLog` not addressing the listener, the listener satisfies `LLOk` with the horizon
`Φ = max(last poll of x, stamp + wait) + slack`, which lies at most `G` behind the end of the last transmission. -/
def SStage.toks : SStage → Nat
  | .c2 => 1
  | _ => 0

theorem countTok_append (a b : List Telegram) : countTok (a ++ b) = countTok a + countTok b := by
  unfold countTok; rw [List.filter_append, List.length_append]

/-- The stage with a token still to be sent (`c2`) is never entered again. -/
theorem SStage.toks_le {s s' : Station} {stage stage' : SStage} (h : stage.ok s) (h' : stage'.ok s')
    (hk : s'.st = .claimToken .secondToken → s.st = .claimToken .secondToken) : stage'.toks ≤ stage.toks := by
  cases stage' with
  | c2 =>
    have h2 := hk h'
    cases stage with
    | c2 => exact Nat.le_refl _
    | scan cur => simp only [SStage.ok] at h; rw [h.1] at h2; cases h2
    | await a => simp only [SStage.ok] at h; rw [h.1] at h2; cases h2
    | done => simp only [SStage.ok] at h; rw [h.1] at h2; cases h2
    | pass => simp only [SStage.ok] at h; rw [h] at h2; cases h2
  | scan cur => exact Nat.zero_le _
  | await a => exact Nat.zero_le _
  | done => exact Nat.zero_le _
  | pass => exact Nat.zero_le _

theorem SStage.toks_zero {s' : Station} {stage' : SStage} (h' : stage'.ok s') (hk : s'.st ≠ .claimToken .secondToken) :
    stage'.toks = 0 := by
  cases stage' with
  | c2 => exact absurd h' hk
  | scan cur => rfl
  | await a => rfl
  | done => rfl
  | pass => rfl

theorem SStage.toks_c2 {s : Station} {stage : SStage} (h : stage.ok s) (hk : s.st = .claimToken .secondToken) :
    stage.toks = 1 := by
  cases stage with
  | c2 => rfl
  | scan cur => simp only [SStage.ok] at h; rw [h.1] at hk; cases hk
  | await a => simp only [SStage.ok] at h; rw [h.1] at hk; cases hk
  | done => simp only [SStage.ok] at h; rw [h.1] at hk; cases hk
  | pass => simp only [SStage.ok] at h; rw [h] at hk; cases hk

structure Duo (cfg : Cfg) (G : Nat) (n : Net) (x y : Nat) (stx sty : NetStation) (l : Int) (stage : SStage)
    (r0 : TokenRing) (hd : List Telegram) (tl : Int) : Prop where
  solo : Solo cfg n x stx l
  stg : stage.ok stx.s
  view : RingView [stx.s.p.address] stx.s.p.address stx.s.ring
  lone : LoneLog cfg stx.s.p.address sty.s.p.address x n.bus
  gy : n.stations[y]? = some sty
  yx : y ≠ x
  ys : y < n.bus.seen.length
  yl : y < n.stations.length
  lisX : ∃ dn rs lY coll, LLOkX cfg G stx.s.p.address n.bus
      (max (n.bus.seen.getD x 0) (l + ((stage.wait cfg : Nat) : Int)) + ((stage.slack cfg : Nat) : Int)) y sty r0 hd none
      dn rs lY coll ∧ countTok (hd ++ rs.map telOf) + stage.toks ≤ 2
  hor : ∀ t, n.bus.txs.getLast? = some t →
    max (n.bus.seen.getD x 0) (l + ((stage.wait cfg : Nat) : Int)) + ((stage.slack cfg : Nat) : Int) ≤ cEnd cfg t + (G : Nat)
  starts : ∀ t ∈ n.bus.txs, t.start ≤ tl
  seens : n.bus.seen.getD x 0 ≤ tl ∧ n.bus.seen.getD y 0 ≤ tl
  py : sty.s.p.rate = cfg.rate ∧ sty.s.p.slotBits = cfg.slotBits
  pbx : stx.s.pendingBytes = 0

theorem Duo.lis {cfg : Cfg} {G : Nat} {n : Net} {x y : Nat} {stx sty : NetStation} {l : Int} {stage : SStage}
    {r0 : TokenRing} {hd : List Telegram} {tl : Int} (d : Duo cfg G n x y stx sty l stage r0 hd tl) :
    LLOk cfg G stx.s.p.address n.bus
      (max (n.bus.seen.getD x 0) (l + ((stage.wait cfg : Nat) : Int)) + ((stage.slack cfg : Nat) : Int)) y sty r0 hd := by
  obtain ⟨dn, rs, lY, coll, h, -⟩ := d.lisX
  exact h.toLLOk

theorem SStage.slack_ge (cfg : Cfg) (stage : SStage) : cfg.P ≤ stage.slack cfg := by
  cases stage <;> simp only [SStage.slack] <;> omega

theorem SStage.wait_slack_le (cfg : Cfg) (hok : cfg.Ok) (stage : SStage) :
    stage.wait cfg + stage.slack cfg ≤ cfg.slot + 3 * cfg.P := by
  have := hok.margin
  cases stage <;> simp only [SStage.wait, SStage.slack] <;> omega

theorem Duo.aL_lt {cfg : Cfg} {G : Nat} {n : Net} {x y : Nat} {stx sty : NetStation} {l : Int} {stage : SStage}
    {r0 : TokenRing} {hd : List Telegram} {tl : Int} (d : Duo cfg G n x y stx sty l stage r0 hd tl) :
    stx.s.p.address < 126 := by
  have := d.solo.inv.addr; have := d.solo.inv.hsa; omega

/-- **The listener is polled**: it consumes what has arrived, transmits nothing; the invariant goes on. -/
theorem duo_listen {cfg : Cfg} {G : Nat} {n : Net} {x y : Nat} {stx sty : NetStation} {l : Int} {stage : SStage}
    {r0 : TokenRing} {hd : List Telegram} {tl : Int} (d : Duo cfg G n x y stx sty l stage r0 hd tl) (hok : cfg.Ok)
    (now : Int) (htl : tl ≤ now) (hown : n.bus.seen.getD y 0 < now) (hgx : now ≤ n.bus.seen.getD x 0 + (cfg.P : Nat)) :
    ∃ n' inc c sty' hd', n.poll y now = (n', inc, some (.ok c)) ∧ c.tx = none ∧
      Duo cfg G n' x y stx sty' l stage r0 hd' now := by
  have hsl := SStage.slack_ge cfg stage
  obtain ⟨dn, rs, lY, coll, hX, hcnt⟩ := d.lisX
  have htxs : n.bus.txs = dn ++ rs := hX.2.2.2.2.2.2.2.1
  have hlogR : LoneLogR cfg stx.s.p.address x n.bus :=
    ⟨d.lone.rate, d.lone.corrupt, d.lone.chained, d.lone.live, d.lone.own,
      fun t ht => (d.lone.kinds t ht).imp id (fun ⟨g, h1, _, h3⟩ => ⟨g, h1, h3⟩)⟩
  obtain ⟨inc, c, hdv, hpoll, htx, hp, hres⟩ := llisten_stepR hX hlogR hok.rate d.aL_lt d.yx d.ys now hown
    (by omega) (fun t ht => Int.le_trans (d.starts t ht) htl) d.hor
  obtain ⟨hd', hL'⟩ : ∃ hd', ∃ dn' rs' lY' coll', LLOkX cfg G stx.s.p.address { n.bus with seen := n.bus.seen.set y now }
      (max (n.bus.seen.getD x 0) (l + ((stage.wait cfg : Nat) : Int)) + ((stage.slack cfg : Nat) : Int)) y (upSt sty c) r0 hd' none
      dn' rs' lY' coll' ∧ countTok (hd' ++ rs'.map telOf) + stage.toks ≤ 2 := by
    rcases hres with hX' | ⟨k, dl, hk1, hdm, hfl, hlastd, hX'⟩
    · exact ⟨hd, dn, rs, _, coll, hX', hcnt⟩
    · have hnone : lastReg sty.s.p.address dl = none := by
        unfold lastReg
        cases hg : dl.getLast? with
        | none => rfl
        | some p =>
          obtain ⟨t, fl⟩ := p
          simp only
          have hmem : t ∈ dl.map Prod.fst := List.mem_map_of_mem (f := Prod.fst) (List.mem_of_getLast? hg)
          rw [hdm] at hmem
          obtain ⟨t', ht', e⟩ := List.mem_map.1 hmem
          have hk' := d.lone.kinds t' (by rw [htxs]; exact List.mem_append_right _ (List.mem_of_mem_take ht'))
          have haL := d.aL_lt
          have hlt : LoneTel stx.s.p.address sty.s.p.address (telOf t') := by
            rcases hk' with hb | ⟨g, hg1, hg2, hb⟩
            · have e2 : telOf t' = tokTel [stx.s.p.address] stx.s.p.address :=
                telOf_token t' _ [stx.s.p.address] (by rw [cycSucc_single]; exact hb)
              rw [e2]; unfold tokTel; rw [cycSucc_single]; exact .inl rfl
            · rw [telOf_req t' g _ (by omega) (by omega) hb]; exact .inr ⟨g, by omega, hg2, rfl⟩
          rw [← e]
          exact hlt.regSr_none (by omega) fl
      rw [hnone] at hX'
      refine ⟨_, _, _, _, _, hX', ?_⟩
      have : (hd ++ dl.map Prod.fst) ++ (rs.drop k).map telOf = hd ++ rs.map telOf := by
        rw [hdm, List.append_assoc, ← List.map_append, List.take_append_drop]
      rw [this]; exact hcnt
  obtain ⟨hon, hal, -⟩ := hX
  have hpoll' : sty.s.poll sty.apps now (Bus.transmitting { n.bus with seen := n.bus.seen.set y now } y now) (sty.rx ++ inc) = .ok c := by
    rw [transmitting_seen]; exact hpoll
  have hpe := Net.poll_eq n y now sty _ inc c d.gy hal hon hdv hpoll'
  rw [htx] at hpe
  have hxy : x ≠ y := Ne.symm d.yx
  have hsx : ({ n.bus with seen := n.bus.seen.set y now } : Bus).seen.getD x 0 = n.bus.seen.getD x 0 :=
    seen_set_other n.bus y x now d.yx
  refine ⟨_, inc, c, upSt sty c, hd', hpe, htx, ?_⟩
  have hs := d.solo
  refine ⟨⟨hs.rate, hs.drops, hs.corrupt, hs.chained, hs.live, hs.pos, (by simp only; rw [hsx]; exact hs.done), hs.ends,
      by simp only [List.length_set]; exact hs.xl,
      by simp only [List.length_set]; exact hs.xs, by simp only; rw [List.getElem?_set_ne d.yx]; exact hs.gx,
      hs.online, hs.alive, hs.inv, hs.son, hs.rx, hs.stamp, hs.prate, hs.pslot⟩,
    d.stg, d.view, ?_, List.getElem?_set_self d.yl, d.yx, by simp only [List.length_set]; exact d.ys,
    by simp only [List.length_set]; exact d.yl, ?_, ?_, fun t ht => Int.le_trans (d.starts t ht) htl, ?_,
    by show c.s.p.rate = _ ∧ c.s.p.slotBits = _; rw [hp]; exact d.py, d.pbx⟩
  · have : (upSt sty c).s.p.address = sty.s.p.address := by show c.s.p.address = _; rw [hp]
    rw [this]
    exact ⟨d.lone.rate, d.lone.corrupt, d.lone.chained, d.lone.live, d.lone.own, d.lone.kinds⟩
  · simp only; rw [hsx]; exact hL'
  · simp only; rw [hsx]; exact d.hor
  · simp only
    rw [hsx, seen_set_self _ _ _ d.ys]
    exact ⟨Int.le_trans d.seens.1 htl, Int.le_refl _⟩

/-- Outcome of a poll of the claimant while the listener listens: the one-station ring stands; or the claimant has
just sent its GAP request to the listener's address; or the invariant goes on in the next stage. -/
def DuoOut (cfg : Cfg) (G : Nat) (x y : Nat) (stx sty : NetStation) (r0 : TokenRing) (hd : List Telegram) (B : Int)
    (n' : Net) (c : Ctx) (now : Int) : Prop :=
  (c.s.st = .useToken ⟨now, none⟩ false ∧ c.tx = some (selfToken stx.s.p.address)) ∨
  (c.tx = some (statusRequestBytes sty.s.p.address stx.s.p.address)) ∨
  (∃ (stage' : SStage) (l' : Int), Duo cfg G n' x y (upSt stx c) sty l' stage' r0 hd now ∧
    (c.tx = none ∨ c.tx = some (selfToken stx.s.p.address) ∨
      ∃ a, a ≠ stx.s.p.address ∧ a ≠ sty.s.p.address ∧ c.tx = some (statusRequestBytes a stx.s.p.address)) ∧
    max now (l' + ((stage'.wait cfg : Nat) : Int)) + ((stage'.rest cfg stx.s.p.address stx.s.p.hsa : Nat) : Int) ≤ B)

/-- **The claimant is polled** while the listener listens. -/
theorem duo_claimant {cfg : Cfg} {G : Nat} {n : Net} {x y : Nat} {stx sty : NetStation} {l : Int} {stage : SStage}
    {r0 : TokenRing} {hd : List Telegram} {tl : Int} (d : Duo cfg G n x y stx sty l stage r0 hd tl) (hok : cfg.Ok)
    (hP100 : cfg.P ≤ 100000) (hG : cfg.slot + 3 * cfg.P ≤ G) (B : Int)
    (hB : max (n.bus.seen.getD x 0) (l + ((stage.wait cfg : Nat) : Int)) +
      ((stage.rest cfg stx.s.p.address stx.s.p.hsa : Nat) : Int) ≤ B)
    (now : Int) (htl : tl ≤ now) (hown : n.bus.seen.getD x 0 < now) (hgx : now ≤ n.bus.seen.getD x 0 + (cfg.P : Nat))
    (hgy : now ≤ n.bus.seen.getD y 0 + (cfg.P : Nat)) :
    ∃ n' c, n.poll x now = (n', [], some (.ok c)) ∧ now ≤ B ∧ DuoOut cfg G x y stx sty r0 hd B n' c now := by
  have hr := hok.rate
  have hs := d.solo
  have hsl := SStage.slack_ge cfg stage
  have hrg := SStage.rest_ge cfg stx.s.p.address stx.s.p.hsa stage
  obtain ⟨dnL, rsL, lYL, collL, hXL, hcntL⟩ := d.lisX
  have htxsL : n.bus.txs = dnL ++ rsL := hXL.2.2.2.2.2.2.2.1
  obtain ⟨n', c, hp, hseen, hnow, hout⟩ := form_step hs hok stage d.stg d.view B now hown hgx hB
  refine ⟨n', c, hp, by omega, ?_⟩
  obtain ⟨hbus, st0, hst0, hset, hpoll0⟩ := Net.poll_bus n x now n' [] c hp
  rw [hs.gx] at hst0
  cases hst0
  have hdel : (n.bus.deliver x now).1 = { n.bus with seen := n.bus.seen.set x now } := by
    rw [hs.deliver hr now (Int.le_of_lt hown)]
  have hdel2 : (n.bus.deliver x now).2 = [] := by rw [hs.deliver hr now (Int.le_of_lt hown)]
  rw [hdel, hdel2] at hpoll0
  rw [hdel] at hbus
  have hxy : x ≠ y := Ne.symm d.yx
  have hsy : ({ n.bus with seen := n.bus.seen.set x now } : Bus).seen.getD y 0 = n.bus.seen.getD y 0 :=
    seen_set_other n.bus x y now hxy
  unfold FormOut at hout
  rcases hout with ⟨a1, a2, -⟩ | ⟨stage', l', hS, hs', hv', hp', htxi, hB', hΦ, hnl, hk2, htok, hpbq⟩
  · exact .inl ⟨a1, a2⟩
  have haddr : (upSt stx c).s.p.address = stx.s.p.address := by show c.s.p.address = _; rw [hp']
  have hhsa : (upSt stx c).s.p.hsa = stx.s.p.hsa := by show c.s.p.hsa = _; rw [hp']
  have hgy' : n'.stations[y]? = some sty := by rw [hset, List.getElem?_set_ne hxy]; exact d.gy
  have hlen' : n'.stations.length = n.stations.length := by rw [hset, List.length_set]
  by_cases htx : c.tx = none
  · -- nothing transmitted
    obtain ⟨hl', hΦ'⟩ := hΦ htx
    rw [htx] at hbus
    simp only at hbus
    refine .inr (.inr ⟨stage', l', ?_, .inl htx, by rw [haddr, hhsa] at *; exact hB'⟩)
    refine ⟨hS, hs', by rw [haddr]; exact hv', ?_, hgy', d.yx, by rw [hbus]; simp only [List.length_set]; exact d.ys,
      by rw [hlen']; exact d.yl, ?_, ?_, ?_, ?_, d.py, by show c.s.pendingBytes = 0; rw [hpbq]; exact d.pbx⟩
    · rw [haddr, hbus]
      exact ⟨d.lone.rate, d.lone.corrupt, d.lone.chained, d.lone.live, d.lone.own, d.lone.kinds⟩
    · refine ⟨dnL, rsL, lYL, collL, ?_, ?_⟩
      · rw [haddr, hseen]
        have h1 := hXL.other x now hxy
        rw [hbus]
        exact h1.mono hΦ'
      · have := SStage.toks_le d.stg hs' (fun hh => (hk2 hh).1)
        omega
    · rw [hseen, hbus]
      intro t ht
      exact Int.le_trans hΦ' (d.hor t ht)
    · rw [hbus]; exact fun t ht => Int.le_trans (d.starts t ht) htl
    · rw [hseen, hbus, hsy]
      exact ⟨Int.le_refl _, Int.le_trans d.seens.2 htl⟩
  · -- a transmission
    have hnl' := hnl htx
    obtain ⟨b, hb⟩ : ∃ b, c.tx = some b := by
      cases hc : c.tx with
      | none => exact absurd hc htx
      | some b => exact ⟨b, rfl⟩
    by_cases hpolled : b = statusRequestBytes sty.s.p.address stx.s.p.address
    · exact .inr (.inl (by rw [hb, hpolled]))
    rw [hb] at hbus
    simp only at hbus
    have hlt : l + ((stx.s.p.bits 33 : Nat) : Int) < now := by
      have := (pollInner_tx { s := stx.s, apps := stx.apps, rx := _ } now _ c hpoll0 rfl htx).2.2 l hs.stamp
      exact this
    have hbkind : b = tokenBytes stx.s.p.address stx.s.p.address ∨
        ∃ g, g < 126 ∧ g ≠ sty.s.p.address ∧ b = statusRequestBytes g stx.s.p.address := by
      rcases htxi with h0 | h0 | ⟨a, h1, h2, h3, -⟩
      · exact absurd h0 htx
      · rw [hb] at h0; exact .inl (Option.some.inj h0)
      · rw [hb] at h3
        have hb' := Option.some.inj h3
        refine .inr ⟨a, by have := hs.inv.hsa; omega, ?_, hb'⟩
        intro e; rw [e] at hb'; exact hpolled hb'
    have hblen : 0 < b.length := by
      rcases hbkind with e | ⟨g, -, -, e⟩
      · rw [e]; show 0 < 3; omega
      · rw [e, statusRequestBytes_length]; omega
    have hrate : 0 < n.bus.rate := by rw [hs.rate]; exact hr
    obtain ⟨old', e1, e2, e3, e4, e5, e6⟩ := Bus.send_txs { n.bus with seen := n.bus.seen.set x now } x now b hs.drops hrate
    have hspec := Bus.send_spec { n.bus with seen := n.bus.seen.set x now } x now b hs.drops
    have hends : ∀ o ∈ n.bus.txs, cEnd cfg o ≤ now := fun o ho => by
      have := hs.ends o ho (d.lone.own o ho); omega
    have hsub : old'.Sublist n.bus.txs := by
      have : (Bus.send { n.bus with seen := n.bus.seen.set x now } x now b).txs =
          (n.bus.txs.filter fun t => decide (n.bus.txEnd t + 100000 > now)) ++
            [({ start := now, sender := x, bytes := b, dropped := false } : Transmission)] := by
        rw [hspec]
        simp only [List.filter_append, List.filter_cons, List.filter_nil]
        have : decide (Bus.txEnd { n.bus with seen := n.bus.seen.set x now }
            ({ start := now, sender := x, bytes := b, dropped := false } : Transmission) + 100000 > now) = true := by
          have := Bus.byteEnd_pos n.bus hrate (b.length - 1)
          unfold Bus.txEnd
          simp only [decide_eq_true_eq]
          show now + n.bus.byteEnd (b.length - 1) + 100000 > now
          omega
        rw [if_pos this]
        rfl
      rw [e1] at this
      have hh := List.append_inj_left' this rfl
      rw [hh]
      exact List.filter_sublist
    -- the stamp of the new record is the predicted end of the new transmission
    have hmark : l' = now + ((bitsToTime cfg.rate (11 * b.length) : Nat) : Int) := by
      have hpi : pollInner { s := stx.s, apps := stx.apps, rx := (if stx.online = true then stx.rx ++ [] else stx.rx) } now
          (Bus.transmitting { n.bus with seen := n.bus.seen.set x now } x now) = .ok c := hpoll0
      have hm := pollInner_marks _ now _ c b hpi rfl hb
      unfold MarkK at hm
      have hst' : c.s.lastBusActivity = some l' := hS.stamp
      rw [hm] at hst'
      have := Option.some.inj hst'
      rw [← this]
      unfold Params.bits
      rw [hp', hs.prate]
    have hte := tEnd_cEnd cfg hr { start := now, sender := x, bytes := b, dropped := false } hblen
    unfold tEnd cEnd at hte
    simp only at hte
    have hws := SStage.wait_slack_le cfg hok stage'
    refine .inr (.inr ⟨stage', l', ?_, ?_, by rw [haddr, hhsa] at *; exact hB'⟩)
    · refine ⟨hS, hs', by rw [haddr]; exact hv', ?_, hgy', d.yx, by rw [hbus, e4]; simp only [List.length_set]; exact d.ys,
        by rw [hlen']; exact d.yl, ?_, ?_, ?_, ?_, d.py, by show c.s.pendingBytes = 0; rw [hpbq]; exact d.pbx⟩
      · rw [haddr, hbus]
        refine ⟨e3.trans d.lone.rate, e5.trans d.lone.corrupt, ?_, ?_, ?_, ?_⟩
        · rw [e1]
          unfold CChained
          rw [List.pairwise_append]
          refine ⟨List.Pairwise.sublist hsub d.lone.chained, List.pairwise_singleton _ _, ?_⟩
          intro o ho t ht
          simp only [List.mem_singleton] at ht
          subst ht
          exact hends o (e2 o ho)
        · intro t ht
          rw [e1] at ht
          rcases List.mem_append.1 ht with ht | ht
          · exact d.lone.live t (e2 t ht)
          · simp only [List.mem_singleton] at ht; subst ht; rfl
        · intro t ht
          rw [e1] at ht
          rcases List.mem_append.1 ht with ht | ht
          · exact d.lone.own t (e2 t ht)
          · simp only [List.mem_singleton] at ht; subst ht; rfl
        · intro t ht
          rw [e1] at ht
          rcases List.mem_append.1 ht with ht | ht
          · exact d.lone.kinds t (e2 t ht)
          · simp only [List.mem_singleton] at ht; subst ht; exact hbkind
      · have h1 := hXL.other x now hxy
        have hl1 : LoneLog cfg stx.s.p.address sty.s.p.address x { n.bus with seen := n.bus.seen.set x now } :=
          ⟨d.lone.rate, d.lone.corrupt, d.lone.chained, d.lone.live, d.lone.own, d.lone.kinds⟩
        refine ⟨dnL.filter (fun t => decide (({ n.bus with seen := n.bus.seen.set x now } : Bus).txEnd t + 100000 > now)),
          rsL ++ [{ start := now, sender := x, bytes := b, dropped := false }], lYL, collL, ?_, ?_⟩
        · rw [haddr, hseen, hbus]
          exact LLOkX.send h1 hl1 hr d.aL_lt now b hblen (by omega) (by rw [hsy]; exact Int.le_trans d.seens.2 htl)
            (by rw [hsy]; exact hgy) hP100 (by rw [hspec]) e4
        · have hne2 : c.s.st ≠ .claimToken .secondToken := fun hh => by
            have := (hk2 hh).2; rw [hb] at this; cases this
          have ht0 := SStage.toks_zero hs' hne2
          rw [ht0, List.map_append, ← List.append_assoc, countTok_append]
          rcases hbkind with e | ⟨g, hg1, -, e⟩
          · have et : telOf ({ start := now, sender := x, bytes := b, dropped := false } : Transmission) =
                tokTel [stx.s.p.address] stx.s.p.address :=
              telOf_token _ _ [stx.s.p.address] (by rw [cycSucc_single]; exact e)
            have h1t := SStage.toks_c2 d.stg (htok (by rw [hb, e]; rfl))
            have : countTok [telOf ({ start := now, sender := x, bytes := b, dropped := false } : Transmission)] = 1 := by
              rw [et]; rfl
            simp only [List.map_cons, List.map_nil]
            omega
          · have haL := d.aL_lt
            have et : telOf ({ start := now, sender := x, bytes := b, dropped := false } : Transmission) =
                reqTel g stx.s.p.address := telOf_req _ g _ (by omega) (by omega) e
            have : countTok [telOf ({ start := now, sender := x, bytes := b, dropped := false } : Transmission)] = 0 := by
              rw [et]; rfl
            simp only [List.map_cons, List.map_nil]
            omega
      · rw [hseen, hbus, e1]
        intro t ht
        rw [List.getLast?_append] at ht
        simp only [List.getLast?_singleton, Option.some_or] at ht
        have := Option.some.inj ht
        subst this
        unfold cEnd
        simp only
        push_cast at hws
        omega
      · rw [hbus, e1]
        intro t ht
        rcases List.mem_append.1 ht with ht | ht
        · exact Int.le_trans (d.starts t (e2 t ht)) htl
        · simp only [List.mem_singleton] at ht; subst ht; exact Int.le_refl _
      · rw [hseen, hbus, e4, hsy]
        exact ⟨Int.le_refl _, Int.le_trans d.seens.2 htl⟩
    · rcases htxi with h0 | h0 | ⟨a, h1, h2, h3, -⟩
      · exact .inl h0
      · exact .inr (.inl h0)
      · refine .inr (.inr ⟨a, h1, ?_, h3⟩)
        intro e
        rw [hb, e] at h3
        exact hpolled (Option.some.inj h3)

/-! ## Whole runs: claimant and listener until the listener's address is polled -/

/-- What the claimant may transmit before it polls the listener's address. -/
def DuoTx (aL aH : Nat) (c : Ctx) : Prop :=
  c.tx = none ∨ c.tx = some (selfToken aL) ∨ ∃ a, a ≠ aL ∧ a ≠ aH ∧ c.tx = some (statusRequestBytes a aL)

/-- **Run of claimant `x` (address `aL`) and listener `y` (address `aH`)**: every poll returns regularly; the
listener never transmits; the claimant transmits only self-addressed tokens and GAP requests to third addresses,
each poll of it no later than `B`, until it either completes its one-station ring or sends the GAP request to the
listener's address (where this description ends). -/
def DuoRun (x y aL aH : Nat) (B : Int) : Net → List (Nat × Int) → Prop
  | _, [] => True
  | n, (i, now) :: rest =>
    ∃ n' inc c, n.poll i now = (n', inc, some (.ok c)) ∧
      ((i = y ∧ c.tx = none ∧ DuoRun x y aL aH B n' rest) ∨
       (i = x ∧ now ≤ B ∧
          ((c.s.st = .useToken ⟨now, none⟩ false ∧ c.tx = some (selfToken aL)) ∨
           c.tx = some (statusRequestBytes aH aL) ∨
           (DuoTx aL aH c ∧ DuoRun x y aL aH B n' rest))))

theorem duo_run {cfg : Cfg} (hok : cfg.Ok) (hP100 : cfg.P ≤ 100000) (G : Nat) (hG : cfg.slot + 3 * cfg.P ≤ G) (x y : Nat)
    (r0 : TokenRing) (B : Int) (aL hsa : Nat) (sty0 : NetStation) :
    ∀ (evs : List (Nat × Int)) (n : Net) (stx sty : NetStation) (l : Int) (stage : SStage) (hd : List Telegram) (tl : Int),
    Duo cfg G n x y stx sty l stage r0 hd tl → n.stations.length = 2 → stx.s.p.address = aL → stx.s.p.hsa = hsa →
    sty.s.p.address = sty0.s.p.address →
    max (n.bus.seen.getD x 0) (l + ((stage.wait cfg : Nat) : Int)) + ((stage.rest cfg aL hsa : Nat) : Int) ≤ B →
    SchedN cfg.P n tl evs → DuoRun x y aL sty0.s.p.address B n evs := by
  intro evs
  induction evs with
  | nil => intro _ _ _ _ _ _ _ _ _ _ _ _ _ _; trivial
  | cons ev rest ih =>
    intro n stx sty l stage hd tl d hN haL hhsa haH hB hs
    obtain ⟨i, now⟩ := ev
    obtain ⟨hi, htl, hown, hgap, hrest⟩ := hs
    have hxl := d.solo.xl
    have hyl := d.yl
    have hgx := hgap x hxl
    have hgy := hgap y hyl
    have hixy : i = x ∨ i = y := by have := d.yx; omega
    subst haL hhsa
    rcases hixy with rfl | rfl
    · obtain ⟨n', c, hp, hnB, hout⟩ := duo_claimant d hok hP100 hG B hB now htl hown hgx hgy
      have hn' : (n.poll i now).1 = n' := by rw [hp]
      rw [hn'] at hrest
      refine ⟨n', [], c, hp, .inr ⟨rfl, hnB, ?_⟩⟩
      rcases hout with h1 | h2 | ⟨stage', l', d', htx, hB'⟩
      · exact .inl h1
      · exact .inr (.inl (by rw [← haH]; exact h2))
      · refine .inr (.inr ⟨?_, ?_⟩)
        · rw [← haH]; exact htx
        · have hpeq : c.s.p = stx.s.p := by
            obtain ⟨-, st0, hst0, -, hpoll0⟩ := Net.poll_bus n i now n' [] c hp
            rw [d.solo.gx] at hst0; cases hst0
            exact (poll_frame _ _ _ _ _ c hpoll0).1
          have e1 : (upSt stx c).s.p.address = stx.s.p.address := by show c.s.p.address = _; rw [hpeq]
          have e2 : (upSt stx c).s.p.hsa = stx.s.p.hsa := by show c.s.p.hsa = _; rw [hpeq]
          have hlen' : n'.stations.length = 2 := by
            have := Net.poll_len n i now; rw [hp] at this; simp only at this; rw [this]; exact hN
          have hseen : n'.bus.seen.getD i 0 = now := by
            have := Net.poll_seenN n i now; rw [hp] at this; simp only at this
            rw [this, seen_set_self _ _ _ d.solo.xs]
          exact ih n' (upSt stx c) sty l' stage' hd now d' hlen' e1 e2 haH (by rw [hseen]; exact hB') hrest
    · obtain ⟨n', inc, c, sty', hd', hp, htx, d'⟩ := duo_listen d hok now htl hown hgx
      have hn' : (n.poll i now).1 = n' := by rw [hp]
      rw [hn'] at hrest
      refine ⟨n', inc, c, hp, .inl ⟨rfl, htx, ?_⟩⟩
      have hlen' : n'.stations.length = 2 := by
        have := Net.poll_len n i now; rw [hp] at this; simp only at this; rw [this]; exact hN
      have hseen : n'.bus.seen.getD x 0 = n.bus.seen.getD x 0 := by
        have := Net.poll_seenN n i now; rw [hp] at this; simp only at this
        rw [this, seen_set_other _ _ _ _ d.yx]
      have haH' : sty'.s.p.address = sty0.s.p.address := by
        have := d'.gy
        obtain ⟨-, st0, hst0, hset, hpoll0⟩ := Net.poll_bus n i now n' inc c hp
        rw [d.gy] at hst0; cases hst0
        rw [hset, List.getElem?_set_self d.yl] at this
        have e := (Option.some.inj this).symm
        rw [e]
        show c.s.p.address = _
        rw [(poll_frame _ _ _ _ _ c hpoll0).1]; exact haH
      exact ih n' stx sty' l stage hd' now d' hlen' rfl rfl haH' (by rw [hseen]; exact hB) hrest

/-! ## From two listening stations to claimant and listener -/

/-- **Two stations listening on a silent bus**: nothing transmitted; `x` (stamp `lx`) and `y` (stamp `ly`) in
`ListenToken` with empty buffers. -/
structure CS2 (cfg : Cfg) (n : Net) (x y : Nat) (stx sty : NetStation) (lx ly : Int) : Prop where
  solo : Solo cfg n x stx lx
  lisx : ∃ coll, stx.s.st = .listenToken none coll
  empty : n.bus.txs = []
  corrupt : n.bus.corrupt = []
  gy : n.stations[y]? = some sty
  yx : y ≠ x
  ys : y < n.bus.seen.length
  yl : y < n.stations.length
  lisy : Listening sty ly
  lys : ly ≤ n.bus.seen.getD y 0
  pby : sty.s.pendingBytes = 0
  py : sty.s.p.rate = cfg.rate ∧ sty.s.p.slotBits = cfg.slotBits
  pbx : stx.s.pendingBytes = 0

/-- The poll at which `x` claims: from then on claimant and listener (`Duo`, stage `c2`). -/
theorem duo_init {cfg : Cfg} {n : Net} {x y : Nat} {stx sty : NetStation} {lx ly : Int} (h : CS2 cfg n x y stx sty lx ly)
    (hok : cfg.Ok) (G : Nat) (hG : cfg.slot + 3 * cfg.P ≤ G) (hGy : G + cfg.ce 0 + 2 ≤ sty.s.p.tokenLostTimeout)
    (hne : stx.s.p.address ≠ sty.s.p.address) (now : Int) (hown : n.bus.seen.getD x 0 < now)
    (hsy : n.bus.seen.getD y 0 ≤ now)
    (hexp : lx + (stx.s.p.tokenLostTimeout : Nat) ≤ now) (hsync : cfg.b33 < stx.s.p.tokenLostTimeout)
    (hv : RingView [stx.s.p.address] stx.s.p.address stx.s.ring.claimToken)
    (hstag : now + ((cfg.ce 0 : Nat) : Int) < ly + (sty.s.p.tokenLostTimeout : Nat)) :
    ∃ n' c, n.poll x now = (n', [], some (.ok c)) ∧ c.tx = some (selfToken stx.s.p.address) ∧
      c.s.st = .claimToken .secondToken ∧ c.s.p = stx.s.p ∧
      Duo cfg G n' x y (upSt stx c) sty (now + (cfg.b33 : Nat)) .c2 sty.s.ring [] now := by
  have hr := hok.rate
  have hmar := hok.margin
  have hc2 := cfg.ce2 hr
  have hc0 := cfg.ce_pos hr 0
  have hs := h.solo
  obtain ⟨coll, hst⟩ := h.lisx
  obtain ⟨n', c, hp, hseen, htx, hS', hs2, hv', hp', hpbc⟩ := lone_listen_claim hs hok coll hst now hown hexp hsync hv
  obtain ⟨hbus, st0, hst0, hset, -⟩ := Net.poll_bus n x now n' [] c hp
  rw [hs.gx] at hst0
  cases hst0
  rw [hs.deliver hr now (Int.le_of_lt hown), htx] at hbus
  simp only at hbus
  have hxy : x ≠ y := Ne.symm h.yx
  have hrate : 0 < n.bus.rate := by rw [hs.rate]; exact hr
  have hspec := Bus.send_spec { n.bus with seen := n.bus.seen.set x now } x now (selfToken stx.s.p.address) hs.drops
  have htxs : n'.bus.txs = [{ start := now, sender := x, bytes := selfToken stx.s.p.address, dropped := false }] := by
    have hk : decide (Bus.txEnd { n.bus with seen := n.bus.seen.set x now }
        ({ start := now, sender := x, bytes := selfToken stx.s.p.address, dropped := false } : Transmission) + 100000 > now) = true := by
      have := Bus.byteEnd_pos n.bus hrate ((selfToken stx.s.p.address).length - 1)
      unfold Bus.txEnd
      simp only [decide_eq_true_eq]
      show now + n.bus.byteEnd ((selfToken stx.s.p.address).length - 1) + 100000 > now
      omega
    rw [hbus, hspec]
    simp only [h.empty, List.nil_append, List.filter_cons, List.filter_nil]
    rw [if_pos]
    have := Bus.byteEnd_pos n.bus hrate ((selfToken stx.s.p.address).length - 1)
    unfold Bus.txEnd
    simp only [decide_eq_true_eq]
    show now + n.bus.byteEnd ((selfToken stx.s.p.address).length - 1) + 100000 > now
    omega
  have hseen' : n'.bus.seen = n.bus.seen.set x now := by rw [hbus, hspec]
  have haddr : (upSt stx c).s.p.address = stx.s.p.address := by show c.s.p.address = _; rw [hp']
  have hsyy : n'.bus.seen.getD y 0 = n.bus.seen.getD y 0 := by rw [hseen', seen_set_other _ _ _ _ hxy]
  have hce : cEnd cfg ({ start := now, sender := x, bytes := selfToken stx.s.p.address, dropped := false } : Transmission) =
      now + ((cfg.ce 2 : Nat) : Int) := rfl
  have hv0 : cvis cfg ({ start := now, sender := x, bytes := selfToken stx.s.p.address, dropped := false } : Transmission)
      (n.bus.seen.getD y 0) = 0 := by
    apply cvis_zero
    simp only
    omega
  refine ⟨n', c, hp, htx, hs2, hp', hS', hs2, by rw [haddr]; exact hv', ?_, ?_, h.yx, ?_, ?_, ?_, ?_, ?_, ?_, h.py,
    by show c.s.pendingBytes = 0; rw [hpbc]; exact h.pbx⟩
  · rw [haddr]
    refine ⟨by rw [hbus, hspec]; exact hs.rate, by rw [hbus, hspec]; exact h.corrupt, by rw [htxs]; exact List.pairwise_singleton _ _,
      ?_, ?_, ?_⟩
    · intro t ht; rw [htxs] at ht; simp only [List.mem_singleton] at ht; subst ht; rfl
    · intro t ht; rw [htxs] at ht; simp only [List.mem_singleton] at ht; subst ht; rfl
    · intro t ht; rw [htxs] at ht; simp only [List.mem_singleton] at ht; subst ht; exact .inl rfl
  · rw [hset, List.getElem?_set_ne hxy]; exact h.gy
  · rw [hseen']; simp only [List.length_set]; exact h.ys
  · rw [hset, List.length_set]; exact h.yl
  · -- the listener has not seen anything of the claim token yet
    rw [haddr]
    obtain ⟨cy, hcy⟩ := h.lisy.lis
    refine ⟨[], [{ start := now, sender := x, bytes := selfToken stx.s.p.address, dropped := false }], ly, cy,
      ⟨h.lisy.online, h.lisy.alive, h.lisy.inv, h.lisy.son, hne, hGy, rfl, (by rw [htxs]; rfl), (fun o ho => by cases ho),
        ?_, ?_, ?_, h.lisy.stamp, (by rw [hsyy]; exact h.lys), hcy, ?_⟩, ?_⟩
    · rw [hsyy]
      unfold arrived
      simp only [List.map_cons, List.map_nil, List.flatten_cons, List.flatten_nil, hv0, List.take_zero, List.append_nil]
      exact h.lisy.rx
    · rw [h.pby]; exact Nat.zero_le _
    · intro t rest hrs
      simp only [List.cons.injEq] at hrs
      obtain ⟨rfl, -⟩ := hrs
      rw [hsyy, hv0]
      show 0 < 3; omega
    · rw [hsyy]
      unfold nextArr
      simp only [hv0]
      exact hstag
    · have et : telOf ({ start := now, sender := x, bytes := selfToken stx.s.p.address, dropped := false } : Transmission) =
          tokTel [stx.s.p.address] stx.s.p.address :=
        telOf_token _ _ [stx.s.p.address] (by rw [cycSucc_single]; rfl)
      simp only [List.nil_append, List.map_cons, List.map_nil]
      rw [et]
      exact Nat.le_refl 2
  · intro t ht
    rw [htxs, List.getLast?_singleton] at ht
    have := Option.some.inj ht
    subst this
    rw [hseen, hce]
    simp only [SStage.wait, SStage.slack]
    push_cast
    omega
  · intro t ht; rw [htxs] at ht; simp only [List.mem_singleton] at ht; subst ht; exact Int.le_refl _
  · rw [hseen, hsyy]; exact ⟨Int.le_refl _, hsy⟩

/-- `x` is polled before its time-out: nothing happens. -/
theorem cs2_wait_x {cfg : Cfg} {n : Net} {x y : Nat} {stx sty : NetStation} {lx ly : Int} (h : CS2 cfg n x y stx sty lx ly)
    (hok : cfg.Ok) (now : Int) (hown : n.bus.seen.getD x 0 < now) (hw : now < lx + (stx.s.p.tokenLostTimeout : Nat)) :
    ∃ n' c, n.poll x now = (n', [], some (.ok c)) ∧ c.tx = none ∧ CS2 cfg n' x y stx sty lx ly ∧
      n'.bus.seen = n.bus.seen.set x now := by
  obtain ⟨coll, hst⟩ := h.lisx
  obtain ⟨n', c, hp, htx, hS', hseen⟩ := lone_listen_wait h.solo hok coll hst now hown hw
  obtain ⟨hbus, st0, hst0, hset, -⟩ := Net.poll_bus n x now n' [] c hp
  rw [h.solo.deliver hok.rate now (Int.le_of_lt hown), htx] at hbus
  simp only at hbus
  have hxy : x ≠ y := Ne.symm h.yx
  have hgy : n'.stations[y]? = some sty := by
    have := hS'.gx
    rw [h.solo.gx] at hst0; cases hst0
    rw [hset, List.getElem?_set_ne hxy]; exact h.gy
  refine ⟨n', c, hp, htx, ⟨hS', h.lisx, by rw [hbus]; exact h.empty, by rw [hbus]; exact h.corrupt, hgy, h.yx,
    by rw [hbus]; simp only [List.length_set]; exact h.ys, by rw [hset, List.length_set]; exact h.yl, h.lisy,
    by rw [hbus]; simp only; rw [seen_set_other _ _ _ _ hxy]; exact h.lys, h.pby, h.py, h.pbx⟩, by rw [hbus]⟩

/-- `y` is polled before its time-out: nothing happens. -/
theorem cs2_wait_y {cfg : Cfg} {n : Net} {x y : Nat} {stx sty : NetStation} {lx ly : Int} (h : CS2 cfg n x y stx sty lx ly)
    (now : Int) (hown : n.bus.seen.getD y 0 < now) (hw : now < ly + (sty.s.p.tokenLostTimeout : Nat)) :
    ∃ n' c, n.poll y now = (n', [], some (.ok c)) ∧ c.tx = none ∧ CS2 cfg n' x y stx sty lx ly ∧
      n'.bus.seen = n.bus.seen.set y now := by
  obtain ⟨coll, hs⟩ := h.lisy.lis
  have hp := listen_poll_quiet sty.s sty.apps now ly coll h.lisy.son hs h.lisy.stamp (by have := h.lys; omega) hw
  have hp' : sty.s.poll sty.apps now (Bus.transmitting { n.bus with seen := n.bus.seen.set y now } y now)
      (sty.rx ++ []) = .ok { s := sty.s, apps := sty.apps, rx := [] } := by
    rw [transmitting_seen, h.lisy.rx, Bus.transmitting_nil _ _ _ h.empty]; exact hp
  have hpe := Net.poll_eq n y now sty _ [] _ h.gy h.lisy.alive h.lisy.online (Bus.deliver_nil n.bus y now h.empty) hp'
  have hsame : ({ sty with s := sty.s, apps := sty.apps, rx := [] } : NetStation) = sty := by rw [← h.lisy.rx]
  simp only at hpe
  rw [hsame] at hpe
  have hs0 := h.solo
  refine ⟨_, _, hpe, rfl, ⟨⟨hs0.rate, hs0.drops, hs0.corrupt, hs0.chained, hs0.live, hs0.pos,
      (by simp only; rw [seen_set_other _ _ _ _ h.yx]; exact hs0.done), hs0.ends, by simp only [List.length_set]; exact hs0.xl,
      by simp only [List.length_set]; exact hs0.xs, by simp only; rw [List.getElem?_set_ne h.yx]; exact hs0.gx,
      hs0.online, hs0.alive, hs0.inv, hs0.son, hs0.rx, hs0.stamp, hs0.prate, hs0.pslot⟩,
    h.lisx, h.empty, h.corrupt, List.getElem?_set_self h.yl, h.yx, by simp only [List.length_set]; exact h.ys,
    by simp only [List.length_set]; exact h.yl, h.lisy, by simp only; rw [seen_set_self _ _ _ h.ys]; have := h.lys; omega,
    h.pby, h.py, h.pbx⟩, rfl⟩

/-- **Cold start of two stations up to the poll of the listener's address** (`T` = instant at which `x`'s time-out
runs out, `lim` = latest time of its claim, `D` = formation budget). -/
def TwoRun (x y aL aH : Nat) (T lim : Int) (D : Nat) : Net → List (Nat × Int) → Prop
  | _, [] => True
  | n, (i, now) :: rest =>
    ∃ n' inc c, n.poll i now = (n', inc, some (.ok c)) ∧
      ((c.tx = none ∧ (i = x → now < T) ∧ TwoRun x y aL aH T lim D n' rest) ∨
       (i = x ∧ T ≤ now ∧ now ≤ lim ∧ c.tx = some (selfToken aL) ∧ c.s.st = .claimToken .secondToken ∧
          DuoRun x y aL aH (now + (D : Int)) n' rest))

theorem two_cold_start {cfg : Cfg} (hok : cfg.Ok) (hP100 : cfg.P ≤ 100000) (G : Nat) (hG : cfg.slot + 3 * cfg.P ≤ G)
    (x y : Nat) (stx sty : NetStation) (lx ly : Int)
    (hGy : G + cfg.ce 0 + 2 ≤ sty.s.p.tokenLostTimeout) (hne : stx.s.p.address ≠ sty.s.p.address)
    (hsync : cfg.b33 < stx.s.p.tokenLostTimeout)
    (hv : RingView [stx.s.p.address] stx.s.p.address stx.s.ring.claimToken)
    (hstag : lx + (stx.s.p.tokenLostTimeout : Nat) + (cfg.P : Nat) + ((cfg.ce 0 : Nat) : Int) < ly + (sty.s.p.tokenLostTimeout : Nat)) :
    ∀ (evs : List (Nat × Int)) (n : Net) (tl : Int), CS2 cfg n x y stx sty lx ly → n.stations.length = 2 →
    n.bus.seen.getD x 0 < lx + (stx.s.p.tokenLostTimeout : Nat) → n.bus.seen.getD y 0 ≤ tl → SchedN cfg.P n tl evs →
    TwoRun x y stx.s.p.address sty.s.p.address (lx + (stx.s.p.tokenLostTimeout : Nat))
      (lx + (stx.s.p.tokenLostTimeout : Nat) + (cfg.P : Nat)) (cfg.formTime stx.s.p.hsa) n evs := by
  intro evs
  induction evs with
  | nil => intro _ _ _ _ _ _ _; trivial
  | cons ev rest ih =>
    intro n tl h hN hsx hsy hs
    obtain ⟨i, now⟩ := ev
    obtain ⟨hi, htl, hown, hgap, hrest⟩ := hs
    have hgx := hgap x h.solo.xl
    have hgy := hgap y h.yl
    have hixy : i = x ∨ i = y := by have := h.yx; have := h.solo.xl; have := h.yl; omega
    have hc0 := cfg.ce_pos hok.rate 0
    rcases hixy with rfl | rfl
    · by_cases hw : now < lx + (stx.s.p.tokenLostTimeout : Nat)
      · obtain ⟨n', c, hp, htx, h', hseen⟩ := cs2_wait_x h hok now hown hw
        have hn' : (n.poll i now).1 = n' := by rw [hp]
        rw [hn'] at hrest
        refine ⟨n', [], c, hp, .inl ⟨htx, fun _ => hw, ?_⟩⟩
        have hlen' : n'.stations.length = 2 := by
          have := Net.poll_len n i now; rw [hp] at this; simp only at this; rw [this]; exact hN
        exact ih n' now h' hlen' (by rw [hseen, seen_set_self _ _ _ h.solo.xs]; exact hw)
          (by rw [hseen, seen_set_other _ _ _ _ (Ne.symm h.yx)]; omega) hrest
      · obtain ⟨n', c, hp, htx, hcs, hp', d⟩ := duo_init h hok G hG hGy hne now hown (by omega) (by omega) hsync hv (by omega)
        have hn' : (n.poll i now).1 = n' := by rw [hp]
        rw [hn'] at hrest
        refine ⟨n', [], c, hp, .inr ⟨rfl, by omega, by omega, htx, hcs, ?_⟩⟩
        have hlen' : n'.stations.length = 2 := by
          have := Net.poll_len n i now; rw [hp] at this; simp only at this; rw [this]; exact hN
        have e1 : (upSt stx c).s.p.address = stx.s.p.address := by show c.s.p.address = _; rw [hp']
        have e2 : (upSt stx c).s.p.hsa = stx.s.p.hsa := by show c.s.p.hsa = _; rw [hp']
        have hseen : n'.bus.seen.getD i 0 = now := by
          have := Net.poll_seenN n i now; rw [hp] at this; simp only at this
          rw [this, seen_set_self _ _ _ h.solo.xs]
        refine duo_run hok hP100 G hG i y sty.s.ring (now + (cfg.formTime stx.s.p.hsa : Nat)) stx.s.p.address stx.s.p.hsa sty rest n'
          (upSt stx c) sty (now + (cfg.b33 : Nat)) .c2 [] now d hlen' e1 e2 rfl ?_ hrest
        rw [hseen]
        simp only [SStage.wait, SStage.rest, remGap_self _ _ h.solo.inv.addr]
        unfold Cfg.formTime
        push_cast
        omega
    · have hw : now < ly + (sty.s.p.tokenLostTimeout : Nat) := by omega
      obtain ⟨n', c, hp, htx, h', hseen⟩ := cs2_wait_y h now hown hw
      have hn' : (n.poll i now).1 = n' := by rw [hp]
      rw [hn'] at hrest
      refine ⟨n', [], c, hp, .inl ⟨htx, fun e => absurd e h.yx, ?_⟩⟩
      have hlen' : n'.stations.length = 2 := by
        have := Net.poll_len n i now; rw [hp] at this; simp only at this; rw [this]; exact hN
      exact ih n' now h' hlen' (by rw [hseen, seen_set_other _ _ _ _ h.yx]; exact hsx)
        (by rw [hseen, seen_set_self _ _ _ h.ys]; exact Int.le_refl _) hrest

end PV
